------------------------------ MODULE CatTrace ------------------------------
(* Trace specification for the catalogue part of C05 (harness/wire_cat.cpp): each event carries the entry point, the
   kinds of the layers the BUILDER stacked (as far as libtins knows them) and the serialized bytes.  The TLA+ dissector
   (Stack2) follows the bytes' own tags for that many layers:
     - it must find exactly the builder's layers      "every next-protocol tag names the layer that actually follows"
     - every derived field of every layer is right    lengths, header lengths, checksums, FCS, markers (Stack2, `ok`)
     - Ethernet frames are zero-padded to the minimum *)
EXTENDS TraceIO, Stack2
VARIABLE dummy
vars == <<ex, l, dummy>>
Init == \E s \in Starts : TraceInit(s) /\ dummy = 0
Cat == /\ IsEvent("cat")
       /\ Ev.thrown = "" /\ Len(Ev.bytes) > 0
       /\ LET d == Dissect2(Ev.entry, Ev.bytes, Len(Ev.kinds)) IN
          (/\ Kinds2(d) = Ev.kinds
           /\ AllOK2(d)
           /\ PadOK2(Ev.entry, Ev.bytes, d)) = TRUE
       /\ UNCHANGED dummy
Next == Cat
Spec == Init /\ [][Next]_vars
=============================================================================
