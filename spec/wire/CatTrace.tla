------------------------------ MODULE CatTrace ------------------------------
(* Trace specification for the catalogue part of C05 (harness/wire_cat.cpp): each event carries the entry point, the
   kinds of the layers the BUILDER stacked (as far as libtins knows them) and the serialized bytes.  The TLA+ dissector
   (Stack2) follows the bytes' own tags for that many layers:
     - it must find exactly the builder's layers      "every next-protocol tag names the layer that actually follows"
     - every derived field of every layer is right    lengths, header lengths, checksums, FCS, markers (Stack2, `ok`)
     - Ethernet frames are zero-padded to the minimum *)
EXTENDS TraceIO, Stack2
CONSTANT Prop      \* "C04": the parsed serialization has the same layers and bytes;  "C12": a clone serialises like its source;  "C05": derived fields;  "C02": serialization is total, size-exact and layers never overwrite each other
VARIABLE dummy
vars == <<ex, l, dummy>>
Init == \E s \in Starts : TraceInit(s) /\ dummy = 0
SumSizes(hs) == LET F[i \in 0..Len(hs)] == IF i = 0 THEN 0 ELSE F[i - 1] + hs[i][2] + hs[i][3] IN F[Len(hs)]
C05Cat(e) == /\ e.thrown = "" /\ Len(e.bytes) > 0
             /\ LET d == Dissect2(e.entry, e.bytes, Len(e.kinds)) IN
                (/\ Kinds2(d) = e.kinds
                 \* the builder's last interpreted layer is an MPLS label: what follows is not a label, so this one ends the stack (RFC 3032 2.1)
                 /\ (Len(e.kinds) > 0 /\ e.kinds[Len(e.kinds)] = "mpls") => d.layers[Len(e.kinds)].s = 1
                 /\ AllOK2(d)
                 /\ PadOK2(e.entry, e.bytes, d)) = TRUE
C02Cat(e) == /\ e.thrown = ""                                  \* "serialize() succeeds
             /\ Len(e.bytes) = e.size                           \*  and returns exactly size() bytes,
             /\ e.size = SumSizes(e.hs)                         \*  size() being the sum of all layers' header and trailer sizes"
             /\ e.overwrite = << >>                             \* "each layer writes only inside its own header and trailer regions"
             /\ e.again_same                                    \* (and doing it again gives the same bytes)
\* "Parsing the packet's serialization with libtins yields the same layers, field values, options ... and payload"
C04Cat(e) == e.thrown = "" /\ e.rt_thrown = "" /\ e.rt_types /\ e.rt_bytes
C12Cat(e) == e.thrown = "" /\ e.clone_same /\ e.rebuild_same                    \* "A copy or clone is ... equal to its source ... same ... serialization"
Cat == /\ IsEvent("cat")
       /\ (IF Prop = "C02" THEN C02Cat(Ev) ELSE IF Prop = "C12" THEN C12Cat(Ev) ELSE IF Prop = "C04" THEN C04Cat(Ev) ELSE C05Cat(Ev))
       /\ UNCHANGED dummy
Next == Cat
Spec == Init /\ [][Next]_vars
=============================================================================
