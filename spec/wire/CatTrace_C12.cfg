SPECIFICATION Spec
CONSTANT Prop = "C12"
CONSTRAINT Mark
POSTCONDITION AllAccepted
CHECK_DEADLOCK FALSE
