SPECIFICATION Spec
CONSTANT Depth = 4
CONSTANT Kinds = {"tcp", "ip4", "ip6", "icmp6", "dhcp", "dhcp1", "dhcp6", "dot11", "pppoe", "rtp", "llc", "mld2"}
CONSTRAINT Emit
CHECK_DEADLOCK FALSE
