------------------------------ MODULE TypedOpts ------------------------------
(* Property C04, typed-option part: "every typed option encoder and its decoder are mutual inverses through the wire"
   (quantifier: "typed option setters with any representable argument ... after every step getters = shadow model, and
   view(parse(serialize(p))) = view(p)").

   This module holds
     1. the TABLE of every typed option accessor pair (setter x(value) / getter x()) of libtins' public API, per class:
        the option's code on the wire as the defining document gives it, and the STRUCTURE of its value as a small type
        grammar;
     2. the enumeration of structural shapes of such a value (ShapesOf) used by the generator spec TypedOptsGen;
     3. WellTyped(v, T): a logged value has the structure the table says (binds the replay driver to the table);
     4. the PROPERTY-LEVEL predicate RoundTripOK(c, o, val, got, back) applied by TypedTrace to every logged event.

   TYPE GRAMMAR (a value of the type as it is logged by the driver, uniformly typed for TLC)
     U(w)          unsigned integer of w bits; logged as a number when w <= 31, else as its w/8 octets, big-endian
     En(vals)      one of the listed enumerators (a number)
     Unit          presence-only option (setter without argument, getter has_x()); logged as 1 = present, 0 = absent
     Fix(n)        exactly n octets: Ip4 = Fix(4), Ip6 = Fix(16), Mac = Fix(6), Oui = Fix(3); logged as octets in wire order
     Str(lens)     character string (any octet values), Byt(lens) octet vector; logged as a sequence of octets;
     Dom(lens)     DNS domain name in text form (labels of 1..63 letters/digits separated by single dots), as octets
     Lst(T, lens)  list of T; logged as a sequence
     Rec(fs)       record; fs = << <<name, T>>, ... >> in API order; logged as a record
   lens is the SEQUENCE (ascending) of lengths the generator exercises for that node: always the smallest representable
   one (0 where the wire grammar allows an empty field), 1, 2, "many", sizes around a one-octet length (255, 256) where
   they exist, and the LARGEST length the wire format of the option inside its carrier packet can represent.

   What is "representable" (the generator never offers anything else; each bound is justified by the wire format):
     TCP / IPv4   the option area is at most 40 octets (4-bit data offset / IHL in 32-bit words; RFC 9293 3.1, RFC 791 3.1);
                  a SACK option carries one or more whole blocks = pairs of edges (RFC 2018 3: length 8n + 2)
     DHCP         one-octet option length (RFC 2132 2): at most 255 octets, 63 addresses; address lists hold at least one
     DHCPv6       16-bit option length inside one UDP datagram in one IPv6 packet (16-bit payload length, RFC 8200 3):
                  65535 - 8 (UDP) - 4 (DHCPv6 header) - 4 (option header) = 65519 octets of option data;
                  a DUID has at least one octet after its type (RFC 8415 11.1), a user-class option at least one instance
                  (RFC 8415 21.15: "MUST contain one or more instances")
     ICMPv6 ND    option length in units of 8 octets in one octet (RFC 4861 4.6): type + length + data = 8k <= 2040;
                  where the typed API inserts the padding itself the value may have any length, where it passes the
                  octets through (redirect_header, nonce) only aligned values exist on the wire;
                  address lists hold one or more addresses (RFC 3122 3.1, RFC 8106 5.1), DNSSL one or more names (RFC 8106 5.2)
     802.11       one-octet element length (IEEE 802.11-2012 8.4.2.1): at most 255 octets; rates are 7-bit multiples of
                  500 kb/s (8.4.2.3), one or more per element; the Request element and the DHCPv6 option-request option
                  may be empty (a list of zero or more identifiers); Country holds >= 1 triplet and is padded to an even length (8.4.2.10), so 83
                  triplets (252 octets) is the most; TIM bitmap >= 1 octet (8.4.2.7); IBSS DFS >= 1 channel map entry
     PPPoE        16-bit tag length, tags inside the 16-bit payload length (RFC 2516 4, A): 65535 - 4 = 65531 octets
   Members called "reserved" in the API structs are protocol-reserved ("MUST be zero") and are left at their default. *)
EXTENDS Naturals, Integers, Sequences, FiniteSets, TLC

U(w)        == [k |-> "u", w |-> w]
En(vals)    == [k |-> "enum", vals |-> vals]
Unit        == [k |-> "unit"]
Fix(n)      == [k |-> "fix", n |-> n]
Ip4         == Fix(4)
Ip6         == Fix(16)
Mac         == Fix(6)
Oui         == Fix(3)
Str(lens)   == [k |-> "str", lens |-> lens]
Byt(lens)   == [k |-> "bytes", lens |-> lens]
Dom(lens)   == [k |-> "dom", lens |-> lens]
Lst(T, lens) == [k |-> "list", of |-> T, lens |-> lens]
Rec(fs)     == [k |-> "rec", fs |-> fs]
O(code, T)  == [code |-> code, ty |-> T]

U8  == U(8)
U16 == U(16)
U32 == U(32)
U64 == U(64)
Pair8(a, b) == Rec(<< <<a, U8>>, <<b, U8>> >>)

(* --------------------------------------------------------------------------------------------------------------
   TCP options (RFC 9293 3.1 / 3.2 kinds 2; RFC 7323 kinds 3, 8; RFC 2018 kinds 4, 5; RFC 1146 kind 14) *)
TCPOpts == [
  mss            |-> O(2, U16),
  winscale       |-> O(3, U8),
  sack_permitted |-> O(4, Unit),
  sack           |-> O(5, Lst(U32, <<2, 4, 8>>)),                     \* 1..4 blocks = 2..8 edges: 2 + 8n <= 40
  timestamp      |-> O(8, Rec(<< <<"value", U32>>, <<"reply", U32>> >>)),
  altchecksum    |-> O(14, En(<<0, 1, 2>>)) ]

(* IPv4 options (RFC 791 3.1: security 130, LSRR 131, SSRR 137, record route 7, stream id 136).  A route option is
   type, length, pointer, route data: length 3 (no route data) up to 3 + 4 * 9 = 39 <= 40. *)
RouteT == Rec(<< <<"pointer", U8>>, <<"routes", Lst(Ip4, <<0, 1, 2, 9>>)>> >>)
IPOpts == [
  security          |-> O(130, Rec(<< <<"security", U16>>, <<"compartments", U16>>, <<"handling_restrictions", U16>>,
                                      <<"transmission_control", U(24)>> >>)),
  lsrr              |-> O(131, RouteT),
  ssrr              |-> O(137, RouteT),
  record_route      |-> O(7, RouteT),
  stream_identifier |-> O(136, U16) ]

(* DHCP options (RFC 2132: 53 message type, 54 server id, 51 lease, 58 T1, 59 T2, 1 subnet mask, 3 routers, 6 DNS,
   28 broadcast, 50 requested address, 15 domain name, 12 host name) *)
DStr == Str(<<0, 1, 2, 9, 255>>)
DIps == Lst(Ip4, <<1, 2, 5, 63>>)                    \* RFC 2132 3.5, 3.8: "minimum length ... is 4 octets"
DHCPOpts == [
  type                |-> O(53, En(<<1, 2, 3, 4, 5, 6, 7, 8>>)),
  server_identifier   |-> O(54, Ip4),
  lease_time          |-> O(51, U32),
  renewal_time        |-> O(58, U32),
  rebind_time         |-> O(59, U32),
  subnet_mask         |-> O(1, Ip4),
  routers             |-> O(3, DIps),
  domain_name_servers |-> O(6, DIps),
  broadcast           |-> O(28, Ip4),
  requested_ip        |-> O(50, Ip4),
  domain_name         |-> O(15, DStr),
  hostname            |-> O(12, DStr) ]

(* DHCPv6 options (RFC 8415 21.x).  B6(f) = octet vector after f fixed octets of option data. *)
Max6 == 65519
B6(f)  == Byt(<<0, 1, 2, 9, 255, 256, Max6 - f>>)
B6n(f) == Byt(<<1, 2, 9, 255, 256, Max6 - f>>)           \* at least one octet
Cls6   == Lst(Byt(<<0, 1, 2, 9, 300>>), <<1, 2, 5>>)     \* instances of class data: 2-octet length + opaque data
DuidLLT == Rec(<< <<"hw_type", U16>>, <<"time", U32>>, <<"lladdress", B6n(8)>> >>)         \* RFC 8415 11.2
DuidEN  == Rec(<< <<"enterprise_number", U32>>, <<"identifier", B6n(6)>> >>)               \* 11.3
DuidLL  == Rec(<< <<"hw_type", U16>>, <<"lladdress", B6n(4)>> >>)                          \* 11.4
Duid    == Rec(<< <<"id", U16>>, <<"data", B6n(2)>> >>)
DHCPv6Opts == [
  client_id          |-> O(1, Duid),
  client_id_llt      |-> O(1, DuidLLT),
  client_id_en       |-> O(1, DuidEN),
  client_id_ll       |-> O(1, DuidLL),
  server_id          |-> O(2, Duid),
  server_id_llt      |-> O(2, DuidLLT),
  server_id_en       |-> O(2, DuidEN),
  server_id_ll       |-> O(2, DuidLL),
  ia_na              |-> O(3, Rec(<< <<"id", U32>>, <<"t1", U32>>, <<"t2", U32>>, <<"options", B6(12)>> >>)),
  ia_ta              |-> O(4, Rec(<< <<"id", U32>>, <<"options", B6(4)>> >>)),
  ia_address         |-> O(5, Rec(<< <<"address", Ip6>>, <<"preferred_lifetime", U32>>, <<"valid_lifetime", U32>>,
                                     <<"options", B6(24)>> >>)),
  option_request     |-> O(6, Lst(U16, <<0, 1, 2, 5, 32759>>)),
  preference         |-> O(7, U8),
  elapsed_time       |-> O(8, U16),
  relay_message      |-> O(9, B6(0)),
  authentication     |-> O(11, Rec(<< <<"protocol", U8>>, <<"algorithm", U8>>, <<"rdm", U8>>, <<"replay_detection", U64>>,
                                      <<"auth_info", B6(11)>> >>)),
  server_unicast     |-> O(12, Ip6),
  status_code        |-> O(13, Rec(<< <<"code", U16>>, <<"message", Str(<<0, 1, 2, 9, 255, 256, Max6 - 2>>)>> >>)),
  rapid_commit       |-> O(14, Unit),
  user_class         |-> O(15, Cls6),
  vendor_class       |-> O(16, Rec(<< <<"enterprise_number", U32>>,
                                      <<"vendor_class_data", Lst(Byt(<<0, 1, 2, 9, 300>>), <<0, 1, 2, 5>>)>> >>)),
  vendor_info        |-> O(17, Rec(<< <<"enterprise_number", U32>>, <<"data", B6(4)>> >>)),
  interface_id       |-> O(18, B6(0)),
  reconfigure_msg    |-> O(19, U8),
  reconfigure_accept |-> O(20, Unit) ]

(* ICMPv6 neighbour-discovery options.  A(f) = octet vector after f octets (type, length, fixed fields) which the typed
   API pads to the 8-octet unit itself; Raw8 = vector passed through unpadded (6 mod 8 only). *)
Raw8 == Byt(<<6, 14, 30, 2038>>)
Ips6 == Lst(Ip6, <<1, 2, 5, 127>>)                                   \* 8 + 16 n <= 2040
ICMPv6Opts == [
  source_link_layer_addr |-> O(1, Mac),                                                               \* RFC 4861 4.6.1
  target_link_layer_addr |-> O(2, Mac),
  prefix_info            |-> O(3, Rec(<< <<"prefix_len", U8>>, <<"A", U(1)>>, <<"L", U(1)>>, <<"valid_lifetime", U32>>,
                                         <<"preferred_lifetime", U32>>, <<"prefix", Ip6>> >>)),         \* RFC 4861 4.6.2
  redirect_header        |-> O(4, Raw8),                                                              \* RFC 4861 4.6.3
  mtu                    |-> O(5, Rec(<< <<"first", U16>>, <<"second", U32>> >>)),                    \* RFC 4861 4.6.4
  shortcut_limit         |-> O(6, Rec(<< <<"limit", U8>> >>)),                                        \* RFC 2491 5.3
  new_advert_interval    |-> O(7, Rec(<< <<"interval", U32>> >>)),                                    \* RFC 6275 7.3
  new_home_agent_info    |-> O(8, Lst(U16, <<3>>)),                            \* RFC 6275 7.4: reserved, preference, lifetime
  source_addr_list       |-> O(9, Rec(<< <<"addresses", Ips6>> >>)),                                  \* RFC 3122 3.1
  target_addr_list       |-> O(10, Rec(<< <<"addresses", Ips6>> >>)),
  rsa_signature          |-> O(12, Rec(<< <<"key_hash", Fix(16)>>, <<"signature", Byt(<<1, 4, 5, 11, 12, 128, 2020>>)>> >>)),  \* RFC 3971 5.2
  timestamp              |-> O(13, Rec(<< <<"timestamp", U64>> >>)),                                  \* RFC 3971 5.3.1
  nonce                  |-> O(14, Raw8),                                                             \* RFC 3971 5.3.2
  ip_prefix              |-> O(17, Rec(<< <<"option_code", U8>>, <<"prefix_len", U8>>, <<"address", Ip6>> >>)),  \* RFC 5568 6.4.2
  link_layer_addr        |-> O(19, Rec(<< <<"option_code", U8>>, <<"address", Byt(<<0, 1, 5, 6, 13, 2037>>)>> >>)),  \* RFC 5568 6.4.3
  naack                  |-> O(20, Rec(<< <<"code", U8>>, <<"status", U8>> >>)),                      \* RFC 5568 6.4.5
  map                    |-> O(23, Rec(<< <<"dist", U(4)>>, <<"pref", U(4)>>, <<"r", U(1)>>, <<"valid_lifetime", U32>>,
                                          <<"address", Ip6>> >>)),                                    \* RFC 4140 3
  route_info             |-> O(24, Rec(<< <<"prefix_len", U8>>, <<"pref", U(2)>>, <<"route_lifetime", U32>>,
                                          <<"prefix", Byt(<<0, 1, 5, 8, 9, 16>>)>> >>)),              \* RFC 4191 2.3
  recursive_dns_servers  |-> O(25, Rec(<< <<"lifetime", U32>>, <<"servers", Ips6>> >>)),              \* RFC 8106 5.1
  handover_key_request   |-> O(27, Rec(<< <<"AT", U(4)>>, <<"key", Byt(<<0, 1, 4, 5, 12, 2036>>)>> >>)),        \* RFC 5269 4.1
  handover_key_reply     |-> O(28, Rec(<< <<"lifetime", U16>>, <<"AT", U(4)>>, <<"key", Byt(<<0, 1, 2, 3, 10, 2034>>)>> >>)),  \* RFC 5269 4.2
  handover_assist_info   |-> O(29, Rec(<< <<"option_code", U8>>, <<"hai", Byt(<<0, 1, 4, 5, 12, 255>>)>> >>)),  \* RFC 5271 5.1
  mobile_node_identifier |-> O(30, Rec(<< <<"option_code", U8>>, <<"mn", Byt(<<0, 1, 4, 5, 12, 255>>)>> >>)),   \* RFC 5271 5.2
  dns_search_list        |-> O(31, Rec(<< <<"lifetime", U32>>, <<"domains", Lst(Dom(<<1, 3, 10, 63, 64, 253>>), <<1, 2, 5>>)>> >>)) ]  \* RFC 8106 5.2

(* IEEE 802.11-2012 8.4.2 information elements of management frames; RSN suite selectors as libtins enumerates them
   (OUI 00-0F-AC + type, read as a little-endian word) *)
Cyphers == <<28053248, 44830464, 78384896, 95162112, 111939328, 145493760, 162270976, 279711488, 296488704, 313265920, 330043136>>
Akms    == <<28053248, 44830464, 61607680, 78384896, 95162112, 111939328, 128716544, 145493760, 162270976, 279711488,
             296488704, 313265920, 330043136>>
Rates   == Lst(U(7), <<1, 2, 8, 255>>)                  \* 8.4.2.3 / 8.4.2.15: one or more rates
Dot11Opts == [
  ssid                     |-> O(0, Str(<<0, 1, 2, 9, 32, 255>>)),
  supported_rates          |-> O(1, Rates),
  fh_parameter_set         |-> O(2, Rec(<< <<"dwell_time", U16>>, <<"hop_set", U8>>, <<"hop_pattern", U8>>, <<"hop_index", U8>> >>)),
  ds_parameter_set         |-> O(3, U8),
  cf_parameter_set         |-> O(4, Rec(<< <<"cfp_count", U8>>, <<"cfp_period", U8>>, <<"cfp_max_duration", U16>>,
                                           <<"cfp_dur_remaining", U16>> >>)),
  tim                      |-> O(5, Rec(<< <<"dtim_count", U8>>, <<"dtim_period", U8>>, <<"bitmap_control", U8>>,
                                           <<"partial_virtual_bitmap", Byt(<<1, 2, 9, 252>>)>> >>)),
  ibss_parameter_set       |-> O(6, U16),
  country                  |-> O(7, Rec(<< <<"country", Str(<<3>>)>>,
                                           <<"triplets", Lst(Rec(<< <<"first_channel", U8>>, <<"number_channels", U8>>,
                                                                    <<"max_transmit_power", U8>> >>), <<1, 2, 3, 5, 82, 83>>)>> >>)),
  fh_parameters            |-> O(8, Pair8("prime_radix", "number_channels")),
  fh_pattern_table         |-> O(9, Rec(<< <<"flag", U8>>, <<"number_of_sets", U8>>, <<"modulus", U8>>, <<"offset", U8>>,
                                           <<"random_table", Byt(<<0, 1, 2, 9, 251>>)>> >>)),
  request_information      |-> O(10, Lst(U8, <<0, 1, 2, 5, 255>>)),
  bss_load                 |-> O(11, Rec(<< <<"station_count", U16>>, <<"channel_utilization", U8>>, <<"available_capacity", U16>> >>)),
  challenge_text           |-> O(16, Str(<<0, 1, 2, 9, 253, 255>>)),
  power_constraint         |-> O(32, U8),
  power_capability         |-> O(33, Pair8("min_power", "max_power")),
  tpc_report               |-> O(35, Pair8("transmit_power", "link_margin")),
  supported_channels       |-> O(36, Lst(Pair8("first", "second"), <<1, 2, 5, 127>>)),        \* 8.4.2.20: one or more tuples
  channel_switch           |-> O(37, Rec(<< <<"switch_mode", U8>>, <<"new_channel", U8>>, <<"switch_count", U8>> >>)),
  quiet                    |-> O(40, Rec(<< <<"quiet_count", U8>>, <<"quiet_period", U8>>, <<"quiet_duration", U16>>, <<"quiet_offset", U16>> >>)),
  ibss_dfs                 |-> O(41, Rec(<< <<"dfs_owner", Mac>>, <<"recovery_interval", U8>>,
                                            <<"channel_map", Lst(Pair8("first", "second"), <<1, 2, 5, 124>>)>> >>)),
  erp_information          |-> O(42, U8),
  qos_capability           |-> O(46, U8),
  rsn_information          |-> O(48, Rec(<< <<"version", U16>>, <<"group_suite", En(Cyphers)>>,
                                            <<"pairwise_cyphers", Lst(En(Cyphers), <<0, 1, 2, 5>>)>>,
                                            <<"akm_cyphers", Lst(En(Akms), <<0, 1, 2, 5>>)>>, <<"capabilities", U16>> >>)),
  extended_supported_rates |-> O(50, Rates),
  vendor_specific          |-> O(221, Rec(<< <<"oui", Oui>>, <<"data", Byt(<<0, 1, 2, 9, 252>>)>> >>)) ]

(* PPPoE discovery tags (RFC 2516 Appendix A; tag types as 16-bit numbers in network order) *)
PStr == Str(<<0, 1, 2, 9, 255, 256, 65531>>)
PByt == Byt(<<0, 1, 2, 9, 255, 256, 65531>>)
PPPoEOpts == [
  service_name       |-> O(257, PStr),        \* 0x0101
  ac_name            |-> O(258, PStr),        \* 0x0102
  host_uniq          |-> O(259, PByt),        \* 0x0103
  ac_cookie          |-> O(260, PByt),        \* 0x0104
  vendor_specific    |-> O(261, Rec(<< <<"vendor_id", U32>>, <<"data", Byt(<<0, 1, 2, 9, 255, 256, 65527>>)>> >>)),   \* 0x0105
  relay_session_id   |-> O(272, PByt),        \* 0x0110
  service_name_error |-> O(513, PStr),        \* 0x0201
  ac_system_error    |-> O(514, PStr),        \* 0x0202
  generic_error      |-> O(515, PStr) ]       \* 0x0203

Opts == [TCP |-> TCPOpts, IP |-> IPOpts, DHCP |-> DHCPOpts, DHCPv6 |-> DHCPv6Opts, ICMPv6 |-> ICMPv6Opts,
         Dot11 |-> Dot11Opts, PPPoE |-> PPPoEOpts]
AllClasses == DOMAIN Opts
OptNames(c) == DOMAIN Opts[c]
TypeOf(c, o) == Opts[c][o].ty
CodeOf(c, o) == Opts[c][o].code
Known(c, o) == c \in AllClasses /\ o \in OptNames(c)

(* --------------------------------------------------------------------------------------------------------------
   Structural shapes.  A shape is the type with every length chosen and a VALUE CLASS for the leaves, which the replay
   driver concretises (seeded):  zero 0..0, one 0..01, max 1..1, max1 1..10, hi 10..0, alt 0101../1010.., rnd seeded random.
     leaf shapes    [k |-> "u", w, vc]  [k |-> "enum", vals, vc]  [k |-> "unit"]  [k |-> "fix", n, vc]
     strings        [k |-> "str" | "bytes" | "dom", n, vc]
     lists          [k |-> "listn", n, of |-> shape]            n equal elements of a fixed-size type
                    [k |-> "list", items |-> <<shape, ...>>]     elements of variable size: element i takes the length
                                                                 lens[(r + i) mod Len(lens)] of its type, r = rotation
     records        [k |-> "rec", fs |-> << <<name, shape>>, ... >>]
   Lengths above BigLen are combined with the value class "rnd" only (they exercise the length arithmetic, not the
   values; this bounds the size of the logs TLC has to read). *)
VCs == <<"zero", "one", "max", "max1", "hi", "alt", "rnd">>
BigLen == 300
IsVar(T) == T.k \in {"str", "bytes", "dom"}
LenOK(n, vc) == n <= BigLen \/ vc = "rnd"
SeqToSet(s) == {s[i] : i \in 1..Len(s)}
RECURSIVE ShapesOf(_, _), RecShapes(_, _, _)
ShapesOf(T, vc) ==
  CASE T.k = "u"    -> {[k |-> "u", w |-> T.w, vc |-> vc]}
    [] T.k = "enum" -> {[k |-> "enum", vals |-> T.vals, vc |-> vc]}
    [] T.k = "unit" -> {[k |-> "unit"]}
    [] T.k = "fix"  -> {[k |-> "fix", n |-> T.n, vc |-> vc]}
    [] IsVar(T)     -> {[k |-> T.k, n |-> n, vc |-> vc] : n \in {m \in SeqToSet(T.lens) : LenOK(m, vc)}}
    [] T.k = "list" ->
         IF IsVar(T.of)
         THEN {[k |-> "list", items |-> [i \in 1..n |-> [k |-> T.of.k, n |-> T.of.lens[((r + i) % Len(T.of.lens)) + 1], vc |-> vc]]] :
                   n \in SeqToSet(T.lens), r \in 0..(Len(T.of.lens) - 1)}
         ELSE {[k |-> "listn", n |-> n, of |-> s] : n \in {m \in SeqToSet(T.lens) : LenOK(m, vc)}, s \in ShapesOf(T.of, vc)}
    [] T.k = "rec"  -> {[k |-> "rec", fs |-> f] : f \in RecShapes(T.fs, 1, vc)}
RecShapes(fs, i, vc) ==
  IF i > Len(fs) THEN {<<>>}
  ELSE {<< <<fs[i][1], s>> >> \o rest : s \in ShapesOf(fs[i][2], vc), rest \in RecShapes(fs, i + 1, vc)}

(* the "typical" shape used when two options are applied in sequence: every length is the smallest positive one *)
Typ(lens) == LET P == {i \in 1..Len(lens) : lens[i] >= 1} IN lens[CHOOSE i \in P : \A j \in P : i <= j]
RECURSIVE TypShape(_)
TypShape(T) ==
  CASE T.k = "u"    -> [k |-> "u", w |-> T.w, vc |-> "rnd"]
    [] T.k = "enum" -> [k |-> "enum", vals |-> T.vals, vc |-> "rnd"]
    [] T.k = "unit" -> [k |-> "unit"]
    [] T.k = "fix"  -> [k |-> "fix", n |-> T.n, vc |-> "rnd"]
    [] IsVar(T)     -> [k |-> T.k, n |-> Typ(T.lens), vc |-> "rnd"]
    [] T.k = "list" -> IF IsVar(T.of) THEN [k |-> "list", items |-> [i \in 1..Typ(T.lens) |-> TypShape(T.of)]]
                                      ELSE [k |-> "listn", n |-> Typ(T.lens), of |-> TypShape(T.of)]
    [] T.k = "rec"  -> [k |-> "rec", fs |-> [i \in 1..Len(T.fs) |-> <<T.fs[i][1], TypShape(T.fs[i][2])>>]]

(* --------------------------------------------------------------------------------------------------------------
   WellTyped(v, T): the logged value v has the structure of T (and lengths the table lists). *)
Pow2(n) == LET F[i \in 0..n] == IF i = 0 THEN 1 ELSE 2 * F[i - 1] IN F[n]
IsOctets(v, n) == Len(v) = n /\ \A i \in 1..Len(v) : v[i] \in 0..255
RECURSIVE WellTyped(_, _)
WellTyped(v, T) ==
  CASE T.k = "u"    -> IF T.w <= 31 THEN v \in 0..(Pow2(T.w) - 1) ELSE IsOctets(v, T.w \div 8)
    [] T.k = "enum" -> v \in SeqToSet(T.vals)
    [] T.k = "unit" -> v = 1
    [] T.k = "fix"  -> IsOctets(v, T.n)
    [] IsVar(T)     -> Len(v) \in SeqToSet(T.lens) /\ IsOctets(v, Len(v))
    [] T.k = "list" -> Len(v) \in SeqToSet(T.lens) /\ \A i \in 1..Len(v) : WellTyped(v[i], T.of)
    [] T.k = "rec"  -> /\ DOMAIN v = {T.fs[i][1] : i \in 1..Len(T.fs)}
                       /\ \A i \in 1..Len(T.fs) : WellTyped(v[T.fs[i][1]], T.fs[i][2])

(* --------------------------------------------------------------------------------------------------------------
   THE PROPERTY.  val = the value handed to the typed setter; got = what the typed getter returns right after the setter
   (and, when a second option was set afterwards, once more after that); back = what the typed getter returns on the
   packet libtins parses from the serialisation.  A reading is a record [ok, thrown, v]: ok = the getter returned v,
   otherwise it threw `thrown`.

   C04: "getters and option look-ups reflect exactly the accumulated edits" (got = val) and "Parsing the packet's
   serialization with libtins yields the same ... options ..., so every typed option encoder and its decoder are mutual
   inverses through the wire" (back = val).

   NORMALISATIONS -- only where the WIRE FORMAT of the option cannot carry the distinction, each with its source:
     ICMPv6 rsa_signature.signature   RFC 3971 5.2: the Digital Signature field is of variable length and is followed by
         a Padding field that holds as many octets as remain after the end of the signature.  The option has no
         signature-length field (the length follows from the key, which the option does not carry), so a reader of the
         option's octets sees the signature followed by the zero padding that fills the 8-octet unit.
         Fixed part before the signature: type 1 + length 1 + reserved 2 + key hash 16 = 20 octets.
     ICMPv6 link_layer_addr.address   RFC 5568 6.4.3: type, length, option-code, then the variable-length link-layer
         address; the option has no length field for the LLA itself and padding MUST be used so that the whole option is
         a multiple of 8 octets.  Fixed part: type 1 + length 1 + option-code 1 = 3 octets.
     ICMPv6 route_info.prefix         RFC 4191 2.3: the Prefix is a variable-length field holding an address or a prefix
         of one; Prefix Length gives the number of valid leading bits, the bits after it are reserved and zero; Length is
         1, 2 or 3, i.e. the prefix occupies 0, 8 or 16 octets.  The typed API accepts any number of prefix octets and
         pads them; the 8-octet unit cannot show how many of the trailing zero octets were given.
         Fixed part: type 1 + length 1 + prefix length 1 + flags 1 + lifetime 4 = 8 octets.
   In these three cases the reading may be the value followed by zero octets up to a multiple of 8 (ZeroPadded).
   Nothing else is normalised: in particular a getter that throws on an option its own setter produced is a violation. *)
ZeroPadded(v, x, fixed) == /\ Len(x) >= Len(v)
                           /\ \A i \in 1..Len(v) : x[i] = v[i]
                           /\ \A i \in (Len(v) + 1)..Len(x) : x[i] = 0
                           /\ (fixed + Len(x)) % 8 = 0
                           /\ Len(x) - Len(v) < 8
Same(c, o, val, x) ==
  CASE c = "ICMPv6" /\ o = "rsa_signature"   -> x.key_hash = val.key_hash /\ ZeroPadded(val.signature, x.signature, 20)
    [] c = "ICMPv6" /\ o = "link_layer_addr" -> x.option_code = val.option_code /\ ZeroPadded(val.address, x.address, 3)
    [] c = "ICMPv6" /\ o = "route_info"      -> /\ x.prefix_len = val.prefix_len /\ x.pref = val.pref
                                                /\ x.route_lifetime = val.route_lifetime /\ ZeroPadded(val.prefix, x.prefix, 8)
    [] OTHER -> x = val
Reads(c, o, val, r) == r.ok /\ Same(c, o, val, r.v)
RoundTripOK(c, o, val, got, back) == Reads(c, o, val, got) /\ Reads(c, o, val, back)
=============================================================================
