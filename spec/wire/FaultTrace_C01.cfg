SPECIFICATION Spec
CONSTANT Prop = "C01"
CONSTRAINT Mark
POSTCONDITION AllAccepted
CHECK_DEADLOCK FALSE
