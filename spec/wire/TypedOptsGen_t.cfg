SPECIFICATION Spec
CONSTANT Classes = {"TCP", "IP", "DHCP", "DHCPv6", "ICMPv6", "Dot11", "PPPoE"}
CONSTANT Reps = 32
CONSTANT PairReps = 10
CONSTRAINT Emit
CHECK_DEADLOCK FALSE
