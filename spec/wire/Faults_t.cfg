SPECIFICATION Spec
CONSTANT MaxLen = 420
CONSTANT MaxPos = 260
CONSTANT ChunkSize = 80
CONSTRAINT Emit
CHECK_DEADLOCK FALSE
