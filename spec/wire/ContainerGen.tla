---------------------------- MODULE ContainerGen ----------------------------
(* Edit histories for every option container kind: every sequence of up to Depth operations over a small alphabet
   (codes A, B and a single-octet / padding-like code N; payload sizes chosen around the small-buffer threshold of
   PDUOption (8 bytes), the alignment classes of the container and its maximum) -- respecting what is representable
   on the wire (IPv4 / TCP options at most 40 octets, ICMPv6 options and IPv6 extension headers in 8-octet units). *)
EXTENDS Naturals, Integers, Sequences, FiniteSets, TLC, Json
CONSTANTS Depth, Kinds
Sizes(k) == CASE k \in {"tcp", "ip4"} -> {0, 1, 4, 7}
              [] k \in {"ip6", "icmp6"} -> {6, 14}
              [] k = "rtp" -> {0}
              [] k = "llc" -> {1, 2}
              [] k = "mld2" -> {0, 4, 6}
              [] k = "dhcp1" -> {0, 8}
              [] OTHER -> {0, 1, 8, 9, 255}
Codes(k) == IF k = "mld2" THEN {0, 1} ELSE {0, 1, 2}
CanSpoof(k) == k \in {"tcp", "ip4", "icmp6", "dhcp", "dhcp6", "dot11", "pppoe"}
CanRemove(k) == k \in {"tcp", "ip4", "icmp6", "dhcp", "dhcp1", "dhcp6", "dot11", "rtp"}
\* code 2 is the single-octet (No-Operation) code in TCP / IPv4: it carries no data.
\* kind "dhcp1" is the DHCP container with its two single-octet codes (RFC 2132 3.1 Pad, 3.2 End) as A and B - added and REMOVED
\* like any other entry - next to an ordinary code N
Ops(k) == {o \in {[op |-> "add", code |-> c, size |-> s, spoof |-> -1] : c \in Codes(k), s \in Sizes(k)} :
               /\ (k \in {"tcp", "ip4"} /\ o.code = 2) => o.size = 0
               /\ (k = "dhcp1" /\ o.code \in {0, 1}) => o.size = 0}
          \cup (IF CanSpoof(k) THEN {[op |-> "addspoof", code |-> 0, size |-> 4, spoof |-> 10]} ELSE {})
          \cup (IF CanRemove(k) THEN {[op |-> "remove", code |-> c, size |-> 0, spoof |-> -1] : c \in {0, 1}} ELSE {})
          \cup {[op |-> "ser", code |-> 0, size |-> 0, spoof |-> -1]}
Wire(o) == IF o.op \in {"add", "addspoof"} THEN 2 + o.size ELSE 0
VARIABLES kind, h, used
Init == kind \in Kinds /\ h = <<>> /\ used = 0
Next == /\ Len(h) < Depth
        /\ \E o \in Ops(kind) : /\ (kind \in {"tcp", "ip4"} => used + Wire(o) <= 36)      \* keep the header representable
                                /\ h' = Append(h, o) /\ used' = used + Wire(o)
        /\ UNCHANGED kind
Spec == Init /\ [][Next]_<<kind, h, used>>
Emit == (Len(h) = Depth) => PrintT("SCN " \o ToJson([kind |-> kind, ops |-> h]))
=============================================================================
