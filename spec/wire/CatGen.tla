------------------------------- MODULE CatGen -------------------------------
(* Generator for the catalogue part of C05: every API-built composition of harness/catalogue.h (one per layer class
   libtins derives a field for) and of the extra compositions of harness/wire_cat.cpp (fragments carrying transport
   headers, PPPoE/MPLS/EAPOL under VLAN tags, AH in IPv4 and IPv6, ICMP/ICMPv6 errors with and without RFC 4884 length
   and extension structure and original datagrams below / at / above 128 octets, RadioTap with FCS, loopback and
   cooked capture with every family), each with several seeded value sets. *)
EXTENDS Naturals, Sequences, TLC, Json
CONSTANTS Ids, Reps
VARIABLE s
Init == s \in [id : Ids, rep : 0..(Reps - 1)]
Next == UNCHANGED s
Spec == Init /\ [][Next]_s
Emit == PrintT("SCN " \o ToJson(s))
=============================================================================
