SPECIFICATION Spec
CONSTANT Classes = {"TCP", "IP", "DHCP", "DHCPv6", "ICMPv6", "Dot11", "PPPoE"}
CONSTANT Reps = 1
CONSTANT PairReps = 1
CONSTRAINT Emit
CHECK_DEADLOCK FALSE
