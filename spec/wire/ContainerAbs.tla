---------------------------- MODULE ContainerAbs ----------------------------
(* Shadow model of an option container (C04: "getters and option look-ups reflect exactly the accumulated edits (last
   value set, first matching option, removed options gone, sizes updated)") and the universal serialisation clauses
   of C02 for any history of edits.
   An entry is <<code, data, lengthField>>; lengthField = Len(data) unless the user "spoofed" it.
     add(code, data)            append
     addspoof(code, data, n)    append with an advertised length n that differs from the data size
     remove(code)               delete the FIRST entry with that code; reports whether one existed
     search(code)               the FIRST entry with that code *)
EXTENDS Naturals, Integers, Sequences
FirstIdx(lst, code) == LET S == {i \in 1..Len(lst) : lst[i][1] = code} IN IF S = {} THEN 0 ELSE CHOOSE i \in S : \A j \in S : i <= j
Without(lst, i) == SubSeq(lst, 1, i - 1) \o SubSeq(lst, i + 1, Len(lst))
Add(lst, code, data, lenf) == Append(lst, <<code, data, lenf>>)
Remove(lst, code) == LET i == FirstIdx(lst, code) IN IF i = 0 THEN lst ELSE Without(lst, i)
Spoofed(lst) == \E i \in 1..Len(lst) : lst[i][3] # Len(lst[i][2])
\* C02: "serialize() succeeds and returns exactly size() bytes, size() being the sum of all layers' header and trailer
\* sizes ... each layer writes only inside its own header and trailer regions, so the bytes produced by ... the payload
\* reach the output unmodified"
SerOK(s) == /\ s.thrown = "" /\ s.len = s.size /\ s.size = s.hsum /\ s.overwrite = <<>> /\ s.payload_ok
=============================================================================
