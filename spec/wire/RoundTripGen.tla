----------------------------- MODULE RoundTripGen -----------------------------
(* Inputs for C03: every base packet (a sample of WireGen shapes chosen by the driver, and every catalogue entry)
   x every structural mutation that should keep it acceptable:
     none            the packet as serialised by the API
     tag(i)          the next-protocol field of the i-th layer is set to a value libtins does not know, so that the
                     rest of the packet becomes an opaque payload (i over all layers; layers without a tag field are
                     reported by the driver as "not applied")
     trail(n)        n bytes appended after the end of the packet, beyond every advertised length *)
EXTENDS Naturals, Sequences, TLC, Json
CONSTANTS NCat, MaxLayer
Muts == {[k |-> "none", layer |-> 0, n |-> 0]} \cup {[k |-> "tag", layer |-> i, n |-> 0] : i \in 0..MaxLayer}
        \cup {[k |-> "trail", layer |-> 0, n |-> n] : n \in {1, 4, 17}}
VARIABLE s
Init == s \in [cat : 0..(NCat - 1), mut : Muts]
Spec == Init /\ [][UNCHANGED s]_s
Emit == PrintT("SCN " \o ToJson(s))
=============================================================================
