------------------------------- MODULE Faults -------------------------------
(* Property C01 -- structured hostile inputs and the outcome classes the property allows.

   A fault damages a well-formed base packet (the bases are the WireGen shapes, the catalogue of other layer
   classes, packets of the independent encoder and the PPI/PKTAP sample captures):
     none          the intact packet
     trunc(n)      only the first n bytes of the packet are handed to the parser, for EVERY n below its length
                   -> reaches every "is there enough left?" test of every layer
     byte(p, v)    the byte at offset p is replaced: v a fixed value in {0, 1, 2, 3, 4, 0x3f, 0x40, 0x7f, 0x80, 0xc0, 0xff}
                   or old-1 / old+1 / old xor 0x80 -- for EVERY p inside the first MaxPos bytes
                   -> every length, count, offset, header-length, option-length and next-protocol field lies in every
                      direction (too small, too large, boundary), every tag points at a different parser
   Faults are grouped into chunks of ChunkSize (one replay scenario per base and chunk).

   Allowed outcomes (C01): the entry point "either yields a packet or raises its malformed-packet error"
   (Outcome \in {"packet", "malformed"}); "never lets any other exception type escape"; every read accessor of an
   accepted packet "may fail only with a libtins exception" (acc_foreign = 0).  Out-of-bounds accesses, undefined
   behaviour, leaks and non-termination are observed by the monitors (ASan / UBSan / LSan / per-scenario alarm)
   and reported as crashes of the scenario. *)
EXTENDS Naturals, Integers, Sequences, TLC, Json
CONSTANTS MaxLen, MaxPos, ChunkSize
Vals == {0, 1, 2, 3, 4, 63, 64, 127, 128, 192, 255, -1, -2, -3}
Truncs == [n \in 0..(MaxLen - 1) |-> [k |-> "trunc", n |-> n, p |-> 0, v |-> 0]]
BytePairs == {<<p, v>> : p \in 0..(MaxPos - 1), v \in Vals}
OutcomeOK(ev) == /\ ev.applied => ev.outcome \in {"packet", "malformed"}
                 /\ ev.acc_foreign = 0
VARIABLE c
\* chunk c of the fault list: truncations first, then byte lies ordered by position
NT == MaxLen + 1
NB == MaxPos * 14
ValSeq == <<0, 1, 2, 3, 4, 63, 64, 127, 128, 192, 255, -1, -2, -3>>
FaultAt(i) == IF i = 1 THEN [k |-> "none", n |-> 0, p |-> 0, v |-> 0]          \* the intact packet itself
              ELSE IF i <= NT THEN Truncs[i - 2]                                 \* trunc(0) is the empty buffer
              ELSE LET j == i - NT - 1 IN [k |-> "byte", n |-> 0, p |-> j \div 14, v |-> ValSeq[(j % 14) + 1]]
NChunks == ((NT + NB) + ChunkSize - 1) \div ChunkSize
Chunk(ci) == [i \in 1..(IF ci * ChunkSize <= NT + NB THEN ChunkSize ELSE (NT + NB) - (ci - 1) * ChunkSize) |-> FaultAt((ci - 1) * ChunkSize + i)]
Init == c \in 1..NChunks
Spec == Init /\ [][UNCHANGED c]_c
Emit == PrintT("SCN " \o ToJson([chunk |-> c, faults |-> Chunk(c)]))
=============================================================================
