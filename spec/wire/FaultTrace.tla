------------------------------ MODULE FaultTrace ------------------------------
(* Trace specification over the events of harness/parse_safe.cpp: one event per (base packet, fault).
   Prop = "C01": a packet or the malformed-packet error, nothing else; accessors of accepted packets fail only with libtins
                 exceptions (memory safety, undefined behaviour, leaks and hangs are observed by the sanitizers and the alarm).
   Prop = "C02": "For every packet obtained by parsing bytes ... serialize() succeeds and returns exactly size() bytes" -
                 every packet the damaged buffer was accepted as (by the entry point and by each layer's constructor). *)
EXTENDS TraceIO
CONSTANT Prop
VARIABLE dummy
vars == <<ex, l, dummy>>
Init == \E s \in Starts : TraceInit(s) /\ dummy = 0
F == /\ IsEvent("f")
     /\ UNCHANGED dummy
     /\ IF Prop = "C02"
        THEN Ev.ser_fail = 0                                                   \* serialize() succeeds, |bytes| = size()
        ELSE /\ (Ev.applied => Ev.outcome \in {"packet", "malformed"}) = TRUE  \* a packet, or the malformed-packet error - nothing else
             /\ Ev.acc_foreign = 0                                            \* accessors fail only with libtins exceptions
Next == F
Spec == Init /\ [][Next]_vars
=============================================================================
