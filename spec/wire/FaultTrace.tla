------------------------------ MODULE FaultTrace ------------------------------
(* Trace specification for C01 over the events of harness/parse_safe.cpp: one event per (base packet, fault). *)
EXTENDS TraceIO
VARIABLE dummy
vars == <<ex, l, dummy>>
Init == \E s \in Starts : TraceInit(s) /\ dummy = 0
F == /\ IsEvent("f")
     /\ UNCHANGED dummy
     /\ (Ev.applied => Ev.outcome \in {"packet", "malformed"}) = TRUE     \* a packet, or the malformed-packet error - nothing else
     /\ Ev.acc_foreign = 0                                                  \* accessors fail only with libtins exceptions
Next == F
Spec == Init /\ [][Next]_vars
=============================================================================
