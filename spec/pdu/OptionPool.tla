----------------------------- MODULE OptionPool -----------------------------
(* Property C12, the option value type (anchor include/tins/pdu_option.h: "option value type with small-buffer/heap union
   implements its own copy/move"): every option list of every layer is a vector of PDUOption objects, and inserting,
   removing and copying options runs PDUOption's own copy / move constructors and assignments between values that live in
   the inline buffer (up to 8 octets) and values that live on the heap.

   Slots hold PDUOption objects (or nothing).  A value is identified by an index v into a table of payloads whose lengths
   straddle the small-buffer threshold (the replay driver knows the table).  The model is the sequential meaning of the
   six operations; moved-from objects hold an unspecified value but stay assignable and destructible:
       new(s, v)        slot s := a new option holding value v
       copyctor(s, t)   slot t := new option(deref s)                  copyassign(s, t)   deref t = deref s   (s = t: self-assignment)
       movector(s, t)   slot t := new option(std::move(deref s))       moveassign(s, t)   deref t = std::move(deref s)
       del(s)           delete slot s
   "A copy ... is deep and equal to its source at the time of copying ... and later changes to either never show through
   the other": after every operation every slot holds exactly the value the model says (DeepEqual below is what TLC checks
   of the model itself; the trace specification compares the real objects slot by slot).  "Destroying all live objects
   frees every layer exactly once": the driver deletes what is left and asks LeakSanitizer; a double free is an
   AddressSanitizer report. *)
EXTENDS Naturals, Integers, Sequences, FiniteSets, TLC, Json
CONSTANTS S, NV, Depth
NONE == 0
MOVED == -1              \* valid but unspecified
Slots == 1..S
VARIABLES st, hist
vars == <<st, hist>>
Ops == [op : {"new", "copyctor", "copyassign", "movector", "moveassign", "del"}, a : Slots, b : 0..(IF NV > S THEN NV ELSE S)]
Enabled(s, o) ==
    CASE o.op = "new" -> s[o.a] = NONE /\ o.b \in 1..NV
      [] o.op \in {"copyctor", "movector"} -> o.b \in Slots /\ s[o.a] # NONE /\ s[o.b] = NONE
      [] o.op = "copyassign" -> o.b \in Slots /\ s[o.a] # NONE /\ s[o.b] # NONE
      [] o.op = "moveassign" -> o.b \in Slots /\ o.a # o.b /\ s[o.a] # NONE /\ s[o.b] # NONE
      [] o.op = "del" -> o.b = 0 /\ s[o.a] # NONE
Apply(s, o) ==
    CASE o.op = "new" -> [s EXCEPT ![o.a] = o.b]
      [] o.op \in {"copyctor", "copyassign"} -> [s EXCEPT ![o.b] = s[o.a]]
      [] o.op \in {"movector", "moveassign"} -> [s EXCEPT ![o.b] = s[o.a], ![o.a] = MOVED]
      [] o.op = "del" -> [s EXCEPT ![o.a] = NONE]
Init == st = [s \in Slots |-> NONE] /\ hist = <<>>
Step == /\ Len(hist) < Depth
        /\ \E o \in Ops : Enabled(st, o) /\ st' = Apply(st, o) /\ hist' = Append(hist, o)
Spec == Init /\ [][Step]_vars
\* copies never alias: a value in a slot changes only by an operation that names that slot as target or as move source
Frame == [][\A s \in Slots : st'[s] # st[s] => LET o == hist'[Len(hist')] IN s = o.a \/ s = o.b]_vars
TypeOK == \A s \in Slots : st[s] \in {NONE, MOVED} \cup 1..NV
Emit == (Len(hist) = Depth) => PrintT("SCN " \o ToJson(hist))
=============================================================================
