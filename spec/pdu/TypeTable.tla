------------------------------ MODULE TypeTable ------------------------------
(* Property C13 -- the finite relation between objects of every concrete layer class K and every layer class T
   a user can ask for, extracted from the compiled code by harness/pdu_types.cpp and checked exhaustively.

   For object o (with chain o = c[1], c[2], ... of inner layers), requested type T:
     find      index (0-based) of the chain node returned by find_pdu<T>() on the chain's root, -1 if none,
               -2 if the returned pointer is not a node of the chain
     findk     the same for find_pdu<T>() called on the object of class K itself
     cast      tins_cast<T*>(o) succeeded;  castSame: and returned o itself
     dyn[i]    dynamic_cast<T*>(c[i]) succeeds -- the ground truth "c[i] really is a T"
     self      T is o's exact class

   C13: "a chain search for T or a checked cast to T succeeds on an object of class K only if that object
         really is a T" ............ FindSound, CastSound
        "a search by an object's own exact class always finds it" ............ SelfFound *)
EXTENDS TraceIO, Integers
VARIABLE dummy
vars == <<ex, l, dummy>>
Init == \E s \in Starts : TraceInit(s) /\ dummy = 0
FindSound(e, f) == f # -1 => (f >= 0 /\ f < Len(e.dyn) /\ e.dyn[f + 1])
CastSound(e) == e.cast => (e.dyn[e.kidx + 1] /\ e.castSame)
SelfFound(e) == e.self => (e.findk = e.kidx /\ e.cast)
Pair == /\ IsEvent("pair")
        /\ FindSound(Ev, Ev.find) /\ FindSound(Ev, Ev.findk) /\ CastSound(Ev) /\ SelfFound(Ev)
        /\ Ev.overloads_agree                       \* the const overloads and rfind_pdu hand back the same node (so FindSound covers them)
        /\ UNCHANGED dummy
Next == Pair
Spec == Init /\ [][Next]_vars
=============================================================================
