SPECIFICATION Spec
CONSTRAINT Mark
POSTCONDITION AllAccepted
CHECK_DEADLOCK FALSE
