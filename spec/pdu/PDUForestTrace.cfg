SPECIFICATION Spec
CONSTANT S = 3
CONSTANT P = 2
CONSTRAINT Mark
POSTCONDITION AllAccepted
CHECK_DEADLOCK FALSE
