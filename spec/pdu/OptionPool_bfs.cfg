SPECIFICATION Spec
CONSTANT S = 3
CONSTANT NV = 4
CONSTANT Depth = 4
INVARIANT TypeOK
PROPERTY Frame
CONSTRAINT Emit
CHECK_DEADLOCK FALSE
