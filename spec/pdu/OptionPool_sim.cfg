SPECIFICATION Spec
CONSTANT S = 3
CONSTANT NV = 6
CONSTANT Depth = 10
INVARIANT TypeOK
CONSTRAINT Emit
CHECK_DEADLOCK FALSE
