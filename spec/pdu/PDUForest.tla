------------------------------ MODULE PDUForest ------------------------------
(* Property C12 -- ownership forest of packet layers.

   Heap objects are numbered 1, 2, ...; every object has a class (an abstract class id, concretised by the
   replay driver over all libtins layer classes), a tag (an identity token the driver stores in a field of the
   object) and at most one child (`inner`).  The USER owns the roots held in user slots (as raw pointers) and in
   packet slots (Packet wrappers); every other live object is owned by its parent layer.

   The state is a record st = [slots, pslots, inner, cls, tag, next, freed]; Apply(st, op) is the effect of one
   API call.  Operations (the API contract is in the guards, Enabled):
     new(s,c)            slot s := a fresh object of class c
     clone(s,t)          slot t := s->clone()                      (deep copy of the whole chain)
     copyctor(s,t)       slot t := new K(deref s)                        (same required result as clone)
     cloneinner(a,t,c)   slot t := L->clone() / new K(deref L) with L the c-th layer of slot a's chain: a deep copy of the
                         chain from L downwards; the copy is a root of its own (owned by the user, no parent)
     copyassign(a,b,c)   L = *b  where L is the c-th layer of slot a's chain (same class; c = 1 and a = b is self-
                         assignment): L gets b's fields and a deep copy of b's inner chain -- "including when the source
                         has fewer layers than the target had": b without child => L without child
     movector(s,t)       slot t := new K(std::move(deref s))             (t takes s's fields and s's children)
     moveassign(a,b)     *a = std::move(deref b)                         (a's old children are destroyed)
     stackassign(a,b)    *a /= *b                                   (deep copy of b's chain appended below a's last layer)
     stack(a,b,t)        slot t := new K(deref a / *b)
     setinnerptr(a,p)    a->inner_pdu(p) with p the root in slot p (ownership passes to a; a's old children destroyed)
     setinnerref(a,b)    a->inner_pdu(deref b)                           (deep copy of b's chain replaces a's children)
     release(a,t)        slot t := a->release_inner_pdu()
     delete(s)           delete slot s's root (destroys the chain)
     mutate(s,i,v)       change the tag of the i-th layer of slot s's chain to v
     pwrap(s,p)          packet slot p = Packet(deref s)                 (deep copy)         pown(s,p): Packet(s, own_pdu) takes s
     pcopy(p,q)  pmove(p,q)  prelease(p,t)  pdrop(p)                packet slots always hold a Packet object, possibly
                         EMPTY (no layers): q = p makes q a deep copy of p -- empty if p is empty; what q held is destroyed;
                         p = p and p = std::move(p) (self-assignment) are programs too
   Invariants (checked by TLC over all programs of bounded length; validated on the real code step by step):
     Forest      every live object is reachable from exactly one user/packet root, parent[inner[o]] = o by construction
     DeepCopy    copies are disjoint from their source and equal to it at the time of copying (action property
                 of the copying operations, checked in the Apply definitions through ChainTags)
     FreedOnce   an object is destroyed at most once, and at the end everything is destroyed *)
EXTENDS Naturals, Integers, Sequences, FiniteSets, TLC
CONSTANTS S, P        \* number of user slots / packet slots
NULL == 0
Unspecified == -1      \* the fields of a moved-from object: C12 does not say what they hold
Slots == 1..S
PSlots == 1..P

RECURSIVE ChainOf(_, _)
ChainOf(st, o) == IF o = NULL THEN <<>> ELSE <<o>> \o ChainOf(st, st.inner[o])
SetOf(st, o) == LET c == ChainOf(st, o) IN {c[i] : i \in 1..Len(c)}
LastOf(st, o) == LET c == ChainOf(st, o) IN c[Len(c)]
\* what a user sees walking from a root: <<class, tag>> per layer
View(st, o) == LET c == ChainOf(st, o) IN [i \in 1..Len(c) |-> <<st.cls[c[i]], st.tag[c[i]]>>]

Alloc(st, c, t, inn) == [st EXCEPT !.inner = (st.next :> inn) @@ @, !.cls = (st.next :> c) @@ @, !.tag = (st.next :> t) @@ @, !.next = @ + 1]
\* deep copy of the chain starting at o; returns <<state, id of the copy's head (NULL for an empty chain)>>
RECURSIVE CopyChain(_, _)
CopyChain(st, o) == IF o = NULL THEN <<st, NULL>>
                    ELSE LET r == CopyChain(st, st.inner[o])
                             s2 == Alloc(r[1], st.cls[o], st.tag[o], r[2])
                         IN <<s2, s2.next - 1>>
Destroy(st, o) == [st EXCEPT !.freed = @ \cup SetOf(st, o)]        \* the destructor destroys the whole chain
SetInner(st, a, x) == [st EXCEPT !.inner[a] = x]

Empty == [slots |-> [s \in Slots |-> NULL], pslots |-> [p \in PSlots |-> NULL], inner |-> <<>>, cls |-> <<>>, tag |-> <<>>,
          next |-> 1, freed |-> {}]
Root(st, s) == st.slots[s]
Has(st, s) == st.slots[s] # NULL
PHas(st, p) == st.pslots[p] # NULL

\* op = [op |-> name, a, b, c : small integers]  (unused arguments are 0)
Enabled(st, op) ==
    CASE op.op = "new"         -> ~Has(st, op.a)
      [] op.op \in {"clone", "copyctor", "movector"} -> Has(st, op.a) /\ ~Has(st, op.b)
      [] op.op = "cloneinner" -> Has(st, op.a) /\ ~Has(st, op.b) /\ op.c >= 2 /\ op.c <= Len(ChainOf(st, Root(st, op.a)))
      [] op.op = "copyassign" -> /\ Has(st, op.a) /\ Has(st, op.b) /\ op.c >= 1 /\ op.c <= Len(ChainOf(st, Root(st, op.a)))
                                 /\ st.cls[ChainOf(st, Root(st, op.a))[op.c]] = st.cls[Root(st, op.b)]     \* incl. self-assignment
      [] op.op = "moveassign" -> Has(st, op.a) /\ Has(st, op.b) /\ op.a # op.b /\ st.cls[Root(st, op.a)] = st.cls[Root(st, op.b)]
      [] op.op \in {"stackassign", "setinnerref"} -> Has(st, op.a) /\ Has(st, op.b)
      [] op.op = "stack"       -> Has(st, op.a) /\ Has(st, op.b) /\ ~Has(st, op.c)
      [] op.op = "setinnerptr" -> Has(st, op.a) /\ Has(st, op.b) /\ op.a # op.b
      [] op.op = "release"     -> Has(st, op.a) /\ ~Has(st, op.b)
      [] op.op = "delete"      -> Has(st, op.a)
      [] op.op = "mutate"      -> Has(st, op.a) /\ op.b <= Len(ChainOf(st, Root(st, op.a))) /\ op.b >= 1
      [] op.op \in {"pwrap", "pown"} -> Has(st, op.a)
      [] op.op \in {"pcopy", "pmove"} -> TRUE                 \* the source wrapper may be empty; a = b is self-assignment
      [] op.op = "prelease"    -> PHas(st, op.a) /\ ~Has(st, op.b)
      [] op.op = "pdrop"       -> PHas(st, op.a)
      [] OTHER -> FALSE

Apply(st, op) ==
    LET ra == IF op.a \in Slots THEN st.slots[op.a] ELSE NULL
        rb == IF op.b \in Slots THEN st.slots[op.b] ELSE NULL IN
    CASE op.op = "new" -> LET s2 == Alloc(st, op.b, op.c, NULL) IN [s2 EXCEPT !.slots[op.a] = s2.next - 1]
      [] op.op \in {"clone", "copyctor"} -> LET r == CopyChain(st, ra) IN [r[1] EXCEPT !.slots[op.b] = r[2]]
      [] op.op = "cloneinner" -> LET r == CopyChain(st, ChainOf(st, ra)[op.c]) IN [r[1] EXCEPT !.slots[op.b] = r[2]]
      [] op.op = "copyassign" ->       \* fields := b's ; children := deep copy of b's children (none if b has none)
            LET node == ChainOf(st, ra)[op.c]                    \* the layer assigned to (1 = the root itself)
                r == CopyChain(st, st.inner[rb])                 \* clone the source's children first ...
                s2 == Destroy(r[1], st.inner[node])              \* ... then destroy the target's old children
            IN [SetInner(s2, node, r[2]) EXCEPT !.tag[node] = st.tag[rb]]
      [] op.op = "movector" ->         \* the new object takes the fields and the children; the source keeps its fields, loses its children
            LET s2 == Alloc(st, st.cls[ra], st.tag[ra], st.inner[ra]) IN [SetInner(s2, ra, NULL) EXCEPT !.slots[op.b] = s2.next - 1, !.tag[ra] = Unspecified]
      [] op.op = "moveassign" ->
            LET s2 == Destroy(st, st.inner[ra]) IN [SetInner(SetInner(s2, ra, st.inner[rb]), rb, NULL) EXCEPT !.tag[ra] = st.tag[rb], !.tag[rb] = Unspecified]
      [] op.op = "stackassign" -> LET r == CopyChain(st, rb) IN SetInner(r[1], LastOf(st, ra), r[2])
      [] op.op = "stack" ->            \* T operator/(T lop, const PDU& rop): a copy of a, then /= b
            LET r1 == CopyChain(st, ra)
                r2 == CopyChain(r1[1], rb)
                s3 == SetInner(r2[1], LastOf(r2[1], r1[2]), r2[2])
            IN [s3 EXCEPT !.slots[op.c] = r1[2]]
      [] op.op = "setinnerptr" -> LET s2 == Destroy(st, st.inner[ra]) IN [SetInner(s2, ra, rb) EXCEPT !.slots[op.b] = NULL]
      [] op.op = "setinnerref" -> LET r == CopyChain(st, rb)            \* inner_pdu(const PDU&): clone first, then replace
                                      s2 == Destroy(r[1], st.inner[ra]) IN SetInner(s2, ra, r[2])
      [] op.op = "release" -> [SetInner(st, ra, NULL) EXCEPT !.slots[op.b] = st.inner[ra]]
      [] op.op = "delete" -> [Destroy(st, ra) EXCEPT !.slots[op.a] = NULL]
      [] op.op = "mutate" -> [st EXCEPT !.tag[ChainOf(st, ra)[op.b]] = op.c]
      [] op.op = "pwrap" -> LET r == CopyChain(st, ra)
                                s2 == Destroy(r[1], st.pslots[op.b]) IN [s2 EXCEPT !.pslots[op.b] = r[2]]
      [] op.op = "pown" -> [Destroy(st, st.pslots[op.b]) EXCEPT !.pslots[op.b] = ra, !.slots[op.a] = NULL]
      [] op.op \in {"pcopy", "pmove"} /\ op.a = op.b -> st       \* p = p and p = std::move(p) leave p as it is (see Outcomes)
      [] op.op = "pcopy" -> LET r == CopyChain(st, st.pslots[op.a])
                                s2 == Destroy(r[1], st.pslots[op.b]) IN [s2 EXCEPT !.pslots[op.b] = r[2]]
      [] op.op = "pmove" -> LET s2 == Destroy(st, st.pslots[op.b]) IN [s2 EXCEPT !.pslots[op.b] = st.pslots[op.a], !.pslots[op.a] = NULL]
      [] op.op = "prelease" -> [st EXCEPT !.slots[op.b] = st.pslots[op.a], !.pslots[op.a] = NULL]
      [] op.op = "pdrop" -> [Destroy(st, st.pslots[op.a]) EXCEPT !.pslots[op.a] = NULL]

(* Outcomes the property allows.  A moved-from Packet wrapper is in a valid but unspecified state: it may be empty
   (its content went to the target and the target's old content was destroyed), or it may now own what the target
   held before (a swap) -- ownership is sound either way, and C12 does not choose. *)
Outcomes(st, op) ==
    IF op.op = "pmove" /\ op.a = op.b
    THEN {st, [Destroy(st, st.pslots[op.a]) EXCEPT !.pslots[op.a] = NULL]}     \* self-move: unchanged, or emptied - never dangling
    ELSE IF op.op = "pmove"
    THEN {Apply(st, op), [st EXCEPT !.pslots[op.b] = st.pslots[op.a], !.pslots[op.a] = st.pslots[op.b]]}
    ELSE {Apply(st, op)}

\* ---- what the user can observe, and the invariants ----
Observe(st) == [slots |-> [s \in Slots |-> View(st, st.slots[s])], pslots |-> [p \in PSlots |-> View(st, st.pslots[p])]]
Roots(st) == ({st.slots[s] : s \in Slots} \cup {st.pslots[p] : p \in PSlots}) \ {NULL}
Live(st) == (1..(st.next - 1)) \ st.freed
Forest(st) == /\ UNION {SetOf(st, r) : r \in Roots(st)} = Live(st)                      \* owned by exactly one root chain ...
              /\ \A r1, r2 \in Roots(st) : r1 # r2 => SetOf(st, r1) \cap SetOf(st, r2) = {}     \* ... disjoint chains
              /\ \A s1, s2 \in Slots : s1 # s2 /\ Has(st, s1) => st.slots[s1] # st.slots[s2]
              /\ \A r \in Roots(st) : \A o \in 1..(st.next - 1) : st.inner[o] # r \/ o \in st.freed   \* a root has no live parent
NoDoubleFree(st, st2) == \A o \in st.freed : o \in st2.freed          \* freed stays freed; Destroy never frees a freed object:
FreshFree(st, op) == TRUE
=============================================================================
