SPECIFICATION Spec
CONSTANTS MaxObj = 7
  NPk = 2
  Variant = "free_keeps_map"
INVARIANT OwnedOnce
INVARIANT FreedOnce
INVARIANT Dangling
INVARIANT NothingLost
CHECK_DEADLOCK FALSE
