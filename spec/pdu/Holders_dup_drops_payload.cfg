SPECIFICATION Spec
CONSTANTS MaxObj = 7
  NPk = 2
  Variant = "dup_drops_payload"
INVARIANT OwnedOnce
INVARIANT FreedOnce
INVARIANT Dangling
INVARIANT NothingLost
CHECK_DEADLOCK FALSE
