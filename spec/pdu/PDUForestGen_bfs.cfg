SPECIFICATION Spec
CONSTANT S = 3
CONSTANT P = 2
CONSTANT Depth = 3
CONSTANT NClasses = 2
CONSTANT OpSet = {"new","clone","copyctor", "cloneinner","copyassign","movector","moveassign","stackassign","stack","setinnerptr","setinnerref","release","delete","mutate","pwrap","pown","pcopy","pmove","prelease","pdrop"}
INVARIANT Inv
CONSTRAINT Emit
CHECK_DEADLOCK FALSE
