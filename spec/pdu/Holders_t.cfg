SPECIFICATION Spec
CONSTANTS MaxObj = 9
  NPk = 3
  Variant = "code"
INVARIANT OwnedOnce
INVARIANT FreedOnce
INVARIANT Dangling
INVARIANT NothingLost
CHECK_DEADLOCK FALSE
