------------------------------- MODULE Holders -------------------------------
(* Property C12, the part about the two library classes that keep layers of the user's packets across calls
   (anchors src/ip_reassembler.cpp and src/tcp_stream.cpp):

     IPv4Reassembler   a COPYING holder: process(pkt) stores a private clone of the fragment's payload; the user's
                       packet keeps every layer it had.  The fragment that completes a datagram gets its payload layer
                       destroyed and replaced by the re-parsed datagram; the holder's clones of that datagram are destroyed.
     TCPStreamFollower a STEALING holder (the legacy follower): the payload layer of a segment of a followed stream is
                       released from the packet and is from then on owned by the stream - until its bytes are delivered,
                       the stream ends, or the follower is destroyed.

   Objects are numbered; `own[o]` says who owns o: a user packet (its number), the holder (HOLDER) or nobody any more
   (FREED).  Every action that destroys objects goes through Destroy, which records a double destruction.

   Invariants
     OwnedOnce     every object ever created is owned by exactly one of: one user packet, the holder, or it was destroyed once
     PacketsIntact a user packet loses a layer only by the stealing contract (its last layer, to the holder) or by completion
     FreedOnce     nothing is destroyed twice
     NothingLost   when all packets are deleted and the holder is gone, every object has been destroyed (no leak)

   Variants (implementation shapes; "code" is what libtins does, the others are realistic wrong versions the model refutes)
     code
     free_keeps_map    the holder destroys buffered layers when a side finishes but keeps them in its container
                       (TCPStream::free_fragments without clear()): the destructor destroys them again
     dup_drops_payload the copying holder detaches the packet's payload while it looks at the fragment and forgets to link
                       it back on the duplicate path: the layer is owned by nobody
     steal_without_take the stealing holder releases the payload from the packet but stores nothing for an empty segment *)
EXTENDS Naturals, Sequences, FiniteSets, TLC
CONSTANTS MaxObj, NPk, Variant
VARIABLES pk,        \* pk[p] = sequence of object ids, outermost first; << >> = no such packet (deleted / not yet built)
          own,       \* function object -> packet number | HOLDER | FREED | LOST (owned by nobody, never destroyed)
          holder,    \* does the holder exist
          hset,      \* the holder's container (what its destructor will destroy)
          twice,     \* objects destroyed more than once
          done       \* packets the user has deleted
vars == <<pk, own, holder, hset, twice, done>>
Pk == 1..NPk
FREED == 0      \* owners: a packet number, or one of these
HOLDER == 100
LOST == 101
Objs == DOMAIN own
Fresh(n) == LET m == Cardinality(Objs) IN (m + 1)..(m + n)
Range(s) == {s[i] : i \in 1..Len(s)}

Destroy(S) == /\ twice' = twice \cup {o \in S : own[o] = FREED}
              /\ own' = [o \in Objs |-> IF o \in S THEN FREED ELSE own[o]]

Init == pk = [p \in Pk |-> << >>] /\ own = << >> /\ holder = TRUE /\ hset = {} /\ twice = {} /\ done = {}

\* the user builds a packet of n layers
Build(p, n) == /\ pk[p] = << >> /\ p \notin done /\ Cardinality(Objs) + n <= MaxObj
               /\ LET f == Fresh(n) IN
                  /\ pk' = [pk EXCEPT ![p] = [i \in 1..n |-> Cardinality(Objs) + i]]
                  /\ own' = [o \in Objs \cup f |-> IF o \in f THEN p ELSE own[o]]
               /\ UNCHANGED <<holder, hset, twice, done>>
\* copying holder, fragment stored: a clone of the last layer, owned by the holder
FeedCopy(p) == /\ holder /\ Len(pk[p]) >= 2 /\ Cardinality(Objs) < MaxObj
               /\ LET c == Cardinality(Objs) + 1 IN
                  /\ own' = [o \in Objs \cup {c} |-> IF o = c THEN HOLDER ELSE own[o]]
                  /\ hset' = hset \cup {c}
               /\ UNCHANGED <<pk, holder, twice, done>>
\* copying holder, duplicate fragment: nothing is stored
FeedDup(p) == /\ holder /\ Len(pk[p]) >= 2
              /\ IF Variant = "dup_drops_payload"
                 THEN LET o == pk[p][Len(pk[p])] IN
                      /\ pk' = [pk EXCEPT ![p] = SubSeq(@, 1, Len(@) - 1)]
                      /\ own' = [own EXCEPT ![o] = LOST]
                 ELSE UNCHANGED <<pk, own>>
              /\ UNCHANGED <<holder, hset, twice, done>>
\* copying holder, completing fragment: the payload layer of the packet is destroyed and replaced, the clones are destroyed
Complete(p) == /\ holder /\ Len(pk[p]) >= 2 /\ hset # {} /\ Cardinality(Objs) < MaxObj
               /\ LET o == pk[p][Len(pk[p])]
                      c == Cardinality(Objs) + 1 IN
                  /\ twice' = twice \cup {x \in hset \cup {o} : own[x] = FREED}
                  /\ own' = [x \in Objs \cup {c} |-> IF x = c THEN p ELSE IF x \in hset \cup {o} THEN FREED ELSE own[x]]
                  /\ pk' = [pk EXCEPT ![p] = SubSeq(@, 1, Len(@) - 1) \o <<c>>]
                  /\ hset' = {}
               /\ UNCHANGED <<holder, done>>
\* stealing holder: the last layer of the packet passes to the holder
FeedSteal(p) == /\ holder /\ Len(pk[p]) >= 2
                /\ LET o == pk[p][Len(pk[p])] IN
                   /\ pk' = [pk EXCEPT ![p] = SubSeq(@, 1, Len(@) - 1)]
                   /\ \/ own' = [own EXCEPT ![o] = HOLDER] /\ hset' = hset \cup {o}
                      \/ Variant = "steal_without_take" /\ own' = [own EXCEPT ![o] = LOST] /\ hset' = hset
                /\ UNCHANGED <<holder, twice, done>>
\* stealing holder: buffered layers whose bytes were delivered are destroyed and leave the container
Deliver(S) == /\ holder /\ S # {} /\ S \subseteq hset
              /\ Destroy(S) /\ hset' = hset \ S
              /\ UNCHANGED <<pk, holder, done>>
\* a side of the stream finishes while layers are still buffered
SideFinished == /\ holder /\ hset # {}
                /\ IF Variant = "free_keeps_map" THEN Destroy(hset) /\ hset' = hset
                   ELSE UNCHANGED <<own, twice, hset>>
                /\ UNCHANGED <<pk, holder, done>>
\* the holder is destroyed (or the stream ends): whatever its container names is destroyed
DropHolder == /\ holder /\ holder' = FALSE
              /\ Destroy(hset) /\ hset' = {}
              /\ UNCHANGED <<pk, done>>
\* the user deletes a packet
Delete(p) == /\ pk[p] # << >>
             /\ Destroy(Range(pk[p])) /\ pk' = [pk EXCEPT ![p] = << >>] /\ done' = done \cup {p}
             /\ UNCHANGED <<holder, hset>>
Next == \/ \E p \in Pk : \/ \E n \in 2..3 : Build(p, n)
                         \/ FeedCopy(p) \/ FeedDup(p) \/ Complete(p) \/ FeedSteal(p) \/ Delete(p)
        \/ \E S \in SUBSET hset : Deliver(S)
        \/ SideFinished \/ DropHolder
Spec == Init /\ [][Next]_vars

OwnedOnce == \A o \in Objs : \/ own[o] = FREED
                             \/ own[o] = HOLDER /\ o \in hset /\ \A p \in Pk : o \notin Range(pk[p])
                             \/ own[o] \in Pk /\ o \in Range(pk[own[o]]) /\ o \notin hset /\ \A q \in Pk \ {own[o]} : o \notin Range(pk[q])
FreedOnce == twice = {}
Dangling == \A o \in hset : own[o] # FREED                      \* the holder's container never names a destroyed layer
NothingLost == (~holder /\ \A p \in Pk : pk[p] = << >>) => \A o \in Objs : own[o] = FREED
=============================================================================
