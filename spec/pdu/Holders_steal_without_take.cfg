SPECIFICATION Spec
CONSTANTS MaxObj = 7
  NPk = 2
  Variant = "steal_without_take"
INVARIANT OwnedOnce
INVARIANT FreedOnce
INVARIANT Dangling
INVARIANT NothingLost
CHECK_DEADLOCK FALSE
