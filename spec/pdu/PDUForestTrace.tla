---------------------------- MODULE PDUForestTrace ----------------------------
(* Trace specification for C12: every operation the driver performed on real libtins objects is applied to the
   PDUForest model; what the user can see by walking from the slots must equal what the model predicts.
     op   {"op","a","b","c","slots":[[[pdu_type,tag],..],..],"pslots":[..],"parent_ok","shared","ser_ok","thrown"}
     end  {"leaks": 0|1}
   Sentences of C12:
     "every layer is owned by exactly one parent layer or by the user" ............ ~shared, chains = model chains
     "each layer's parent link designates the layer that owns it (none for a root)" ............ parent_ok
     "destroying all live objects frees every layer exactly once" ............ leaks = 0 (double free: ASan kills the run)
     "A copy or clone is deep and equal to its source at the time of copying - same layers, fields and
      serialization, including when the source has fewer layers than the target had" ............ chains + ser_ok
     "later changes to either never show through the other" ............ mutate + chains of all other slots *)
EXTENDS TraceIO, Integers
CONSTANTS S, P
VARIABLE st
vars == <<ex, l, st>>
F == INSTANCE PDUForest
Init == \E s \in Starts : TraceInit(s) /\ st = F!Empty

\* observed chain vs predicted chain: class must match the concretisation, tag must match unless the class has no
\* tag field (-1 observed) or the model says the value is unspecified (moved-from object)
ChainOK(obs, exp) == /\ Len(obs) = Len(exp)
                     /\ \A i \in 1..Len(exp) : /\ obs[i][1] = Cfg.cmap[exp[i][1] + 1]
                                               /\ (obs[i][2] = -1 \/ exp[i][2] = F!Unspecified \/ obs[i][2] = exp[i][2])
Copying == {"clone", "copyctor", "cloneinner", "copyassign", "pwrap", "pcopy"}
Op == /\ IsEvent("op")
      /\ LET o == [op |-> Ev.op, a |-> Ev.a, b |-> Ev.b, c |-> Ev.c] IN
         \E s2 \in F!Outcomes(st, o) : LET ob == F!Observe(s2) IN
         /\ F!Enabled(st, o)                       \* generator obligation: the program respects the API contract
         /\ st' = s2
         /\ Ev.thrown = ""
         /\ \A s \in 1..S : ChainOK(Ev.slots[s], ob.slots[s])
         /\ \A p \in 1..P : ChainOK(Ev.pslots[p], ob.pslots[p])
         /\ Ev.parent_ok /\ ~Ev.shared
         /\ (Ev.op \in Copying => Ev.ser_ok)
End == IsEvent("end") /\ Ev.leaks = 0 /\ UNCHANGED st
Next == Op \/ End
Spec == Init /\ [][Next]_vars
=============================================================================
