--------------------------- MODULE OptionPoolTrace ---------------------------
(* Trace specification for the option value type (C12): every operation the driver harness/option_pool.cpp performed on real
   PDUOption objects is applied to the OptionPool model; every slot must hold the value the model says.
     op  {"op","a","b","slots":[v | 0 (no object) | -2 (content equals no table value), ...],"sizes_ok"}
     end {"leaks": n} *)
EXTENDS TraceIO, Integers
CONSTANTS S, NV, Depth
VARIABLE st
vars == <<ex, l, st>>
M == INSTANCE OptionPool WITH hist <- <<>>
Init == \E s \in Starts : TraceInit(s) /\ st = [x \in 1..S |-> M!NONE]
Op == /\ IsEvent("op")
      /\ LET o == [op |-> Ev.op, a |-> Ev.a, b |-> Ev.b] IN
         /\ M!Enabled(st, o)
         /\ st' = M!Apply(st, o)
         /\ Ev.sizes_ok
         /\ \A x \in 1..S : LET want == M!Apply(st, o)[x] IN
                            IF want = M!MOVED THEN Ev.slots[x] # 0            \* still an object; its value is unspecified
                            ELSE Ev.slots[x] = want
End == IsEvent("end") /\ Ev.leaks = 0 /\ UNCHANGED st
Next == Op \/ End
Spec == Init /\ [][Next]_vars
=============================================================================
