----------------------------- MODULE PDUForestMC -----------------------------
(* All programs of bounded length over the PDUForest operations: the design-level check of C12, and the
   scenario generator for the replay on real objects (every behaviour is exported as its operation list). *)
EXTENDS PDUForest, Json
CONSTANTS Depth, NClasses, OpSet
VARIABLES st, hist, okfree
vars == <<st, hist, okfree>>
Ops == [op : OpSet, a : 1..S, b : 0..S, c : 0..S]
Norm(o) ==  \* unused arguments are 0, so that every program has one representation
    CASE o.op = "new" -> o.b \in 0..(NClasses - 1) /\ o.c = Len(hist) + 1
      [] o.op \in {"stack"} -> o.b \in Slots /\ o.c \in Slots
      [] o.op = "copyassign" -> o.b \in Slots /\ o.c \in 1..3
      [] o.op = "cloneinner" -> o.b \in Slots /\ o.c \in 2..3
      [] o.op = "mutate" -> o.b \in 1..3 /\ o.c = 50 + Len(hist)
      [] o.op \in {"pwrap", "pown", "pcopy", "pmove"} -> o.b \in PSlots /\ o.c = 0 /\ (o.op \in {"pcopy", "pmove"} => o.a \in PSlots)
      [] o.op = "prelease" -> o.a \in PSlots /\ o.b \in Slots /\ o.c = 0
      [] o.op = "pdrop" -> o.a \in PSlots /\ o.b = 0 /\ o.c = 0
      [] o.op = "delete" -> o.b = 0 /\ o.c = 0
      [] OTHER -> o.b \in Slots /\ o.c = 0
Init == st = Empty /\ hist = <<>> /\ okfree = TRUE
Step == /\ Len(hist) < Depth
        /\ \E o \in Ops : /\ Norm(o) /\ Enabled(st, o)
                          /\ st' = Apply(st, o) /\ hist' = Append(hist, o)
                          /\ okfree' = (okfree /\ st.freed \subseteq Apply(st, o).freed
                                        /\ Cardinality(Apply(st, o).freed) >= Cardinality(st.freed))
Spec == Init /\ [][Step]_vars
Inv == Forest(st) /\ okfree
Emit == (Len(hist) = Depth) => PrintT("SCN " \o ToJson(hist))
=============================================================================
