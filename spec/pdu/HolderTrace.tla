---------------------------- MODULE HolderTrace ----------------------------
(* Trace specification for the holder part of C12 (spec/pdu/Holders): executions of the real IPv4Reassembler
   (harness/ip_frag.cpp --own 1) and of the real legacy TCPStreamFollower (harness/tcp_reasm.cpp --own 1).
     feed {"holder": "reasm"|"follower", "status", "before": [[pdu_type, header_size],..], "after": [..], "links_ok"}
     end  {"leaks": n}       after the holder and every packet have been destroyed
   Sentences of C12:
     "every layer is owned by exactly one parent layer or by the user" - the user's packet keeps every layer the holder's
        contract does not take: a copying holder leaves the packet as it was (Holders!FeedCopy, FeedDup), and replaces the
        payload layer on completion (Complete); a stealing holder takes the payload layer and nothing else (FeedSteal)
     "each layer's parent link designates the layer that owns it" ............ links_ok
     "destroying all live objects frees every layer exactly once" ............ leaks = 0; a double destruction is an
        AddressSanitizer report, which ends the run and is reported by the driver *)
EXTENDS TraceIO, Integers
VARIABLE dummy
vars == <<ex, l, dummy>>
Init == \E s \in Starts : TraceInit(s) /\ dummy = 0
IP4 == Cfg.ip      \* the numbers of PDU::IP and PDU::RAW, from the Reset record
RAW == Cfg.raw
IdxOf(v, t) == IF \E i \in 1..Len(v) : v[i][1] = t THEN CHOOSE i \in 1..Len(v) : v[i][1] = t /\ \A j \in 1..(i - 1) : v[j][1] # t ELSE 0
Types(v) == [i \in 1..Len(v) |-> v[i][1]]
FeedReasm == /\ Ev.holder = "reasm"
             /\ IF Ev.status \in {"FRAGMENTED", "NOT_FRAGMENTED"}
                THEN Ev.after = Ev.before                                             \* Holders!FeedCopy / FeedDup
                ELSE LET k == IdxOf(Ev.before, IP4) IN                                \* Holders!Complete
                     /\ k > 0 /\ Len(Ev.after) > k
                     /\ SubSeq(Types(Ev.after), 1, k) = SubSeq(Types(Ev.before), 1, k)
FeedFollower == /\ Ev.holder = "follower"
                /\ LET n == Len(Ev.before) IN
                   IF n > 0 /\ Ev.before[n][1] = RAW /\ Ev.followed
                   THEN Ev.after = SubSeq(Ev.before, 1, n - 1)                        \* Holders!FeedSteal
                   ELSE Ev.after = Ev.before
Feed == /\ IsEvent("feed")
        /\ Ev.links_ok
        /\ (FeedReasm \/ FeedFollower)
        /\ UNCHANGED dummy
End == IsEvent("end") /\ Ev.leaks = 0 /\ UNCHANGED dummy
Next == Feed \/ End
Spec == Init /\ [][Next]_vars
=============================================================================
