SPECIFICATION Spec
CONSTANT S = 3
CONSTANT NV = 6
CONSTANT Depth = 10
CONSTRAINT Mark
POSTCONDITION AllAccepted
CHECK_DEADLOCK FALSE
