SPECIFICATION Spec
CONSTANTS Workers = {w1, w2}
  Calls = 2
  Variant = "register_during"
INVARIANTS NoRace
CHECK_DEADLOCK FALSE
