SPECIFICATION Spec
CONSTANTS Workers = {w1, w2}
  Calls = 2
  Variant = "lazy_guarded"
INVARIANTS NoRace Isolated
CHECK_DEADLOCK FALSE
