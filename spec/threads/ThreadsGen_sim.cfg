SPECIFICATION Spec
CONSTANTS Workloads = {"catalogue", "dns", "tags", "reasm", "addr", "radiotap", "wifi", "build", "pcap", "handshakes"}
  Ks = {3, 4, 8, 12, 16}
  Iters = 4
  Reps = 2
CONSTRAINT Emit
CHECK_DEADLOCK FALSE
