SPECIFICATION Spec
CONSTANTS Workers = {w1, w2}
  Calls = 2
  Variant = "lazy_dcl"
INVARIANTS NoRace
CHECK_DEADLOCK FALSE
