SPECIFICATION Spec
CONSTANTS Workers = {w1, w2}
  Calls = 2
  Variant = "insert_on_lookup"
INVARIANTS NoRace
CHECK_DEADLOCK FALSE
