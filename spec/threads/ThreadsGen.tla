------------------------------ MODULE ThreadsGen ------------------------------
(* Scenario generator for C18: which workload each of the k threads runs.  Breadth-first search with K = 2 exports
   every ordered pair of workloads (two threads inside the same libtins code, and every two different parts of the
   library side by side); simulation exports random assignments for larger k (up to 16 threads).  `same` makes all
   threads work on identical data - the worst case for a hidden cache keyed on content - instead of data that
   differ per thread - the worst case for a hidden scratch buffer. *)
EXTENDS Naturals, Sequences, TLC, Json
CONSTANTS Workloads, Ks, Iters, Reps
VARIABLES wl, same
Init == wl = << >> /\ same \in BOOLEAN
MaxK == CHOOSE k \in Ks : \A j \in Ks : j <= k
Next == Len(wl) < MaxK /\ \E w \in Workloads : wl' = Append(wl, w) /\ UNCHANGED same
Spec == Init /\ [][Next]_<<wl, same>>
Emit == (Len(wl) \in Ks) => PrintT("SCN " \o ToJson([wl |-> wl, same |-> same, iters |-> Iters, reps |-> Reps]))
=============================================================================
