---- MODULE SharedCells_TTrace_1791084592 ----
EXTENDS Sequences, TLCExt, SharedCells, Toolbox, SharedCells_TEConstants, Naturals, TLC

_expression ==
    LET SharedCells_TEExpression == INSTANCE SharedCells_TEExpression
    IN SharedCells_TEExpression!expression
----

_trace ==
    LET SharedCells_TETrace == INSTANCE SharedCells_TETrace
    IN SharedCells_TETrace!trace
----

_inv ==
    ~(
        TLCGet("level") = Len(_TETrace)
        /\
        mpc = ("spawn")
        /\
        lastR = ([ns_const |-> (w1 :> 0 @@ w2 :> 0 @@ "main" :> 0), const_table |-> (w1 :> 0 @@ w2 :> 0 @@ "main" :> 0), registry |-> (w1 :> 0 @@ w2 :> 0 @@ "main" :> 0), scratch |-> (w1 :> 0 @@ w2 :> 0 @@ "main" :> 0), lazy_flag |-> (w1 :> 0 @@ w2 :> 0 @@ "main" :> 0), lazy_table |-> (w1 :> 0 @@ w2 :> 0 @@ "main" :> 0)])
        /\
        race = (TRUE)
        /\
        need = ((w1 :> FALSE @@ w2 :> FALSE))
        /\
        held = ((w1 :> FALSE @@ w2 :> FALSE))
        /\
        joined = ({})
        /\
        ip = ((w1 :> 2 @@ w2 :> 2))
        /\
        lockHeld = ("none")
        /\
        started = ({w1, w2})
        /\
        vc = ((w1 :> (w1 :> 1 @@ w2 :> 0 @@ "main" :> 2) @@ w2 :> (w1 :> 0 @@ w2 :> 1 @@ "main" :> 1) @@ "main" :> (w1 :> 0 @@ w2 :> 0 @@ "main" :> 3)))
        /\
        content = ([ns_const |-> 0, const_table |-> 0, registry |-> w1, scratch |-> 0, lazy_flag |-> 0, lazy_table |-> 0])
        /\
        lockVC = ((w1 :> 0 @@ w2 :> 0 @@ "main" :> 0))
        /\
        ncall = ((w1 :> 0 @@ w2 :> 0))
        /\
        results = ((w1 :> <<>> @@ w2 :> <<>>))
        /\
        lastW = ([ns_const |-> [c |-> 1, t |-> "main"], const_table |-> [c |-> 1, t |-> "main"], registry |-> [c |-> 1, t |-> w1], scratch |-> [c |-> 0, t |-> "none"], lazy_flag |-> [c |-> 0, t |-> "none"], lazy_table |-> [c |-> 0, t |-> "none"]])
    )
----

_init ==
    /\ need = _TETrace[1].need
    /\ content = _TETrace[1].content
    /\ results = _TETrace[1].results
    /\ lockHeld = _TETrace[1].lockHeld
    /\ lastR = _TETrace[1].lastR
    /\ lastW = _TETrace[1].lastW
    /\ lockVC = _TETrace[1].lockVC
    /\ joined = _TETrace[1].joined
    /\ ip = _TETrace[1].ip
    /\ vc = _TETrace[1].vc
    /\ mpc = _TETrace[1].mpc
    /\ started = _TETrace[1].started
    /\ held = _TETrace[1].held
    /\ race = _TETrace[1].race
    /\ ncall = _TETrace[1].ncall
----

_next ==
    /\ \E i,j \in DOMAIN _TETrace:
        /\ \/ /\ j = i + 1
              /\ i = TLCGet("level")
        /\ need  = _TETrace[i].need
        /\ need' = _TETrace[j].need
        /\ content  = _TETrace[i].content
        /\ content' = _TETrace[j].content
        /\ results  = _TETrace[i].results
        /\ results' = _TETrace[j].results
        /\ lockHeld  = _TETrace[i].lockHeld
        /\ lockHeld' = _TETrace[j].lockHeld
        /\ lastR  = _TETrace[i].lastR
        /\ lastR' = _TETrace[j].lastR
        /\ lastW  = _TETrace[i].lastW
        /\ lastW' = _TETrace[j].lastW
        /\ lockVC  = _TETrace[i].lockVC
        /\ lockVC' = _TETrace[j].lockVC
        /\ joined  = _TETrace[i].joined
        /\ joined' = _TETrace[j].joined
        /\ ip  = _TETrace[i].ip
        /\ ip' = _TETrace[j].ip
        /\ vc  = _TETrace[i].vc
        /\ vc' = _TETrace[j].vc
        /\ mpc  = _TETrace[i].mpc
        /\ mpc' = _TETrace[j].mpc
        /\ started  = _TETrace[i].started
        /\ started' = _TETrace[j].started
        /\ held  = _TETrace[i].held
        /\ held' = _TETrace[j].held
        /\ race  = _TETrace[i].race
        /\ race' = _TETrace[j].race
        /\ ncall  = _TETrace[i].ncall
        /\ ncall' = _TETrace[j].ncall

\* Uncomment the ASSUME below to write the states of the error trace
\* to the given file in Json format. Note that you can pass any tuple
\* to `JsonSerialize`. For example, a sub-sequence of _TETrace.
    \* ASSUME
    \*     LET J == INSTANCE Json
    \*         IN J!JsonSerialize("SharedCells_TTrace_1791084592.json", _TETrace)

=============================================================================

 Note that you can extract this module `SharedCells_TEExpression`
  to a dedicated file to reuse `expression` (the module in the 
  dedicated `SharedCells_TEExpression.tla` file takes precedence 
  over the module `SharedCells_TEExpression` below).

---- MODULE SharedCells_TEExpression ----
EXTENDS Sequences, TLCExt, SharedCells, Toolbox, SharedCells_TEConstants, Naturals, TLC

expression == 
    [
        \* To hide variables of the `SharedCells` spec from the error trace,
        \* remove the variables below.  The trace will be written in the order
        \* of the fields of this record.
        need |-> need
        ,content |-> content
        ,results |-> results
        ,lockHeld |-> lockHeld
        ,lastR |-> lastR
        ,lastW |-> lastW
        ,lockVC |-> lockVC
        ,joined |-> joined
        ,ip |-> ip
        ,vc |-> vc
        ,mpc |-> mpc
        ,started |-> started
        ,held |-> held
        ,race |-> race
        ,ncall |-> ncall
        
        \* Put additional constant-, state-, and action-level expressions here:
        \* ,_stateNumber |-> _TEPosition
        \* ,_needUnchanged |-> need = need'
        
        \* Format the `need` variable as Json value.
        \* ,_needJson |->
        \*     LET J == INSTANCE Json
        \*     IN J!ToJson(need)
        
        \* Lastly, you may build expressions over arbitrary sets of states by
        \* leveraging the _TETrace operator.  For example, this is how to
        \* count the number of times a spec variable changed up to the current
        \* state in the trace.
        \* ,_needModCount |->
        \*     LET F[s \in DOMAIN _TETrace] ==
        \*         IF s = 1 THEN 0
        \*         ELSE IF _TETrace[s].need # _TETrace[s-1].need
        \*             THEN 1 + F[s-1] ELSE F[s-1]
        \*     IN F[_TEPosition - 1]
    ]

=============================================================================



Parsing and semantic processing can take forever if the trace below is long.
 In this case, it is advised to uncomment the module below to deserialize the
 trace from a generated binary file.

\*
\*---- MODULE SharedCells_TETrace ----
\*EXTENDS IOUtils, SharedCells, SharedCells_TEConstants, TLC
\*
\*trace == IODeserialize("SharedCells_TTrace_1791084592.bin", TRUE)
\*
\*=============================================================================
\*

---- MODULE SharedCells_TETrace ----
EXTENDS SharedCells, SharedCells_TEConstants, TLC

trace == 
    <<
    ([mpc |-> "static_init",lastR |-> [ns_const |-> (w1 :> 0 @@ w2 :> 0 @@ "main" :> 0), const_table |-> (w1 :> 0 @@ w2 :> 0 @@ "main" :> 0), registry |-> (w1 :> 0 @@ w2 :> 0 @@ "main" :> 0), scratch |-> (w1 :> 0 @@ w2 :> 0 @@ "main" :> 0), lazy_flag |-> (w1 :> 0 @@ w2 :> 0 @@ "main" :> 0), lazy_table |-> (w1 :> 0 @@ w2 :> 0 @@ "main" :> 0)],race |-> FALSE,need |-> (w1 :> FALSE @@ w2 :> FALSE),held |-> (w1 :> FALSE @@ w2 :> FALSE),joined |-> {},ip |-> (w1 :> 1 @@ w2 :> 1),lockHeld |-> "none",started |-> {},vc |-> (w1 :> (w1 :> 1 @@ w2 :> 0 @@ "main" :> 0) @@ w2 :> (w1 :> 0 @@ w2 :> 1 @@ "main" :> 0) @@ "main" :> (w1 :> 0 @@ w2 :> 0 @@ "main" :> 1)),content |-> [ns_const |-> 0, const_table |-> 0, registry |-> 0, scratch |-> 0, lazy_flag |-> 0, lazy_table |-> 0],lockVC |-> (w1 :> 0 @@ w2 :> 0 @@ "main" :> 0),ncall |-> (w1 :> 0 @@ w2 :> 0),results |-> (w1 :> <<>> @@ w2 :> <<>>),lastW |-> [ns_const |-> [c |-> 0, t |-> "none"], const_table |-> [c |-> 0, t |-> "none"], registry |-> [c |-> 0, t |-> "none"], scratch |-> [c |-> 0, t |-> "none"], lazy_flag |-> [c |-> 0, t |-> "none"], lazy_table |-> [c |-> 0, t |-> "none"]]]),
    ([mpc |-> "user_reg",lastR |-> [ns_const |-> (w1 :> 0 @@ w2 :> 0 @@ "main" :> 0), const_table |-> (w1 :> 0 @@ w2 :> 0 @@ "main" :> 0), registry |-> (w1 :> 0 @@ w2 :> 0 @@ "main" :> 0), scratch |-> (w1 :> 0 @@ w2 :> 0 @@ "main" :> 0), lazy_flag |-> (w1 :> 0 @@ w2 :> 0 @@ "main" :> 0), lazy_table |-> (w1 :> 0 @@ w2 :> 0 @@ "main" :> 0)],race |-> FALSE,need |-> (w1 :> FALSE @@ w2 :> FALSE),held |-> (w1 :> FALSE @@ w2 :> FALSE),joined |-> {},ip |-> (w1 :> 1 @@ w2 :> 1),lockHeld |-> "none",started |-> {},vc |-> (w1 :> (w1 :> 1 @@ w2 :> 0 @@ "main" :> 0) @@ w2 :> (w1 :> 0 @@ w2 :> 1 @@ "main" :> 0) @@ "main" :> (w1 :> 0 @@ w2 :> 0 @@ "main" :> 1)),content |-> [ns_const |-> 0, const_table |-> 0, registry |-> 0, scratch |-> 0, lazy_flag |-> 0, lazy_table |-> 0],lockVC |-> (w1 :> 0 @@ w2 :> 0 @@ "main" :> 0),ncall |-> (w1 :> 0 @@ w2 :> 0),results |-> (w1 :> <<>> @@ w2 :> <<>>),lastW |-> [ns_const |-> [c |-> 1, t |-> "main"], const_table |-> [c |-> 1, t |-> "main"], registry |-> [c |-> 1, t |-> "main"], scratch |-> [c |-> 0, t |-> "none"], lazy_flag |-> [c |-> 0, t |-> "none"], lazy_table |-> [c |-> 0, t |-> "none"]]]),
    ([mpc |-> "spawn",lastR |-> [ns_const |-> (w1 :> 0 @@ w2 :> 0 @@ "main" :> 0), const_table |-> (w1 :> 0 @@ w2 :> 0 @@ "main" :> 0), registry |-> (w1 :> 0 @@ w2 :> 0 @@ "main" :> 0), scratch |-> (w1 :> 0 @@ w2 :> 0 @@ "main" :> 0), lazy_flag |-> (w1 :> 0 @@ w2 :> 0 @@ "main" :> 0), lazy_table |-> (w1 :> 0 @@ w2 :> 0 @@ "main" :> 0)],race |-> FALSE,need |-> (w1 :> FALSE @@ w2 :> FALSE),held |-> (w1 :> FALSE @@ w2 :> FALSE),joined |-> {},ip |-> (w1 :> 1 @@ w2 :> 1),lockHeld |-> "none",started |-> {},vc |-> (w1 :> (w1 :> 1 @@ w2 :> 0 @@ "main" :> 0) @@ w2 :> (w1 :> 0 @@ w2 :> 1 @@ "main" :> 0) @@ "main" :> (w1 :> 0 @@ w2 :> 0 @@ "main" :> 1)),content |-> [ns_const |-> 0, const_table |-> 0, registry |-> 0, scratch |-> 0, lazy_flag |-> 0, lazy_table |-> 0],lockVC |-> (w1 :> 0 @@ w2 :> 0 @@ "main" :> 0),ncall |-> (w1 :> 0 @@ w2 :> 0),results |-> (w1 :> <<>> @@ w2 :> <<>>),lastW |-> [ns_const |-> [c |-> 1, t |-> "main"], const_table |-> [c |-> 1, t |-> "main"], registry |-> [c |-> 1, t |-> "main"], scratch |-> [c |-> 0, t |-> "none"], lazy_flag |-> [c |-> 0, t |-> "none"], lazy_table |-> [c |-> 0, t |-> "none"]]]),
    ([mpc |-> "spawn",lastR |-> [ns_const |-> (w1 :> 0 @@ w2 :> 0 @@ "main" :> 0), const_table |-> (w1 :> 0 @@ w2 :> 0 @@ "main" :> 0), registry |-> (w1 :> 0 @@ w2 :> 0 @@ "main" :> 0), scratch |-> (w1 :> 0 @@ w2 :> 0 @@ "main" :> 0), lazy_flag |-> (w1 :> 0 @@ w2 :> 0 @@ "main" :> 0), lazy_table |-> (w1 :> 0 @@ w2 :> 0 @@ "main" :> 0)],race |-> FALSE,need |-> (w1 :> FALSE @@ w2 :> FALSE),held |-> (w1 :> FALSE @@ w2 :> FALSE),joined |-> {},ip |-> (w1 :> 1 @@ w2 :> 1),lockHeld |-> "none",started |-> {w2},vc |-> (w1 :> (w1 :> 1 @@ w2 :> 0 @@ "main" :> 0) @@ w2 :> (w1 :> 0 @@ w2 :> 1 @@ "main" :> 1) @@ "main" :> (w1 :> 0 @@ w2 :> 0 @@ "main" :> 2)),content |-> [ns_const |-> 0, const_table |-> 0, registry |-> 0, scratch |-> 0, lazy_flag |-> 0, lazy_table |-> 0],lockVC |-> (w1 :> 0 @@ w2 :> 0 @@ "main" :> 0),ncall |-> (w1 :> 0 @@ w2 :> 0),results |-> (w1 :> <<>> @@ w2 :> <<>>),lastW |-> [ns_const |-> [c |-> 1, t |-> "main"], const_table |-> [c |-> 1, t |-> "main"], registry |-> [c |-> 1, t |-> "main"], scratch |-> [c |-> 0, t |-> "none"], lazy_flag |-> [c |-> 0, t |-> "none"], lazy_table |-> [c |-> 0, t |-> "none"]]]),
    ([mpc |-> "spawn",lastR |-> [ns_const |-> (w1 :> 0 @@ w2 :> 0 @@ "main" :> 0), const_table |-> (w1 :> 0 @@ w2 :> 0 @@ "main" :> 0), registry |-> (w1 :> 0 @@ w2 :> 0 @@ "main" :> 0), scratch |-> (w1 :> 0 @@ w2 :> 0 @@ "main" :> 0), lazy_flag |-> (w1 :> 0 @@ w2 :> 0 @@ "main" :> 0), lazy_table |-> (w1 :> 0 @@ w2 :> 0 @@ "main" :> 0)],race |-> FALSE,need |-> (w1 :> FALSE @@ w2 :> FALSE),held |-> (w1 :> FALSE @@ w2 :> FALSE),joined |-> {},ip |-> (w1 :> 1 @@ w2 :> 2),lockHeld |-> "none",started |-> {w2},vc |-> (w1 :> (w1 :> 1 @@ w2 :> 0 @@ "main" :> 0) @@ w2 :> (w1 :> 0 @@ w2 :> 1 @@ "main" :> 1) @@ "main" :> (w1 :> 0 @@ w2 :> 0 @@ "main" :> 2)),content |-> [ns_const |-> 0, const_table |-> 0, registry |-> w2, scratch |-> 0, lazy_flag |-> 0, lazy_table |-> 0],lockVC |-> (w1 :> 0 @@ w2 :> 0 @@ "main" :> 0),ncall |-> (w1 :> 0 @@ w2 :> 0),results |-> (w1 :> <<>> @@ w2 :> <<>>),lastW |-> [ns_const |-> [c |-> 1, t |-> "main"], const_table |-> [c |-> 1, t |-> "main"], registry |-> [c |-> 1, t |-> w2], scratch |-> [c |-> 0, t |-> "none"], lazy_flag |-> [c |-> 0, t |-> "none"], lazy_table |-> [c |-> 0, t |-> "none"]]]),
    ([mpc |-> "spawn",lastR |-> [ns_const |-> (w1 :> 0 @@ w2 :> 0 @@ "main" :> 0), const_table |-> (w1 :> 0 @@ w2 :> 0 @@ "main" :> 0), registry |-> (w1 :> 0 @@ w2 :> 0 @@ "main" :> 0), scratch |-> (w1 :> 0 @@ w2 :> 0 @@ "main" :> 0), lazy_flag |-> (w1 :> 0 @@ w2 :> 0 @@ "main" :> 0), lazy_table |-> (w1 :> 0 @@ w2 :> 0 @@ "main" :> 0)],race |-> FALSE,need |-> (w1 :> FALSE @@ w2 :> FALSE),held |-> (w1 :> FALSE @@ w2 :> FALSE),joined |-> {},ip |-> (w1 :> 1 @@ w2 :> 2),lockHeld |-> "none",started |-> {w1, w2},vc |-> (w1 :> (w1 :> 1 @@ w2 :> 0 @@ "main" :> 2) @@ w2 :> (w1 :> 0 @@ w2 :> 1 @@ "main" :> 1) @@ "main" :> (w1 :> 0 @@ w2 :> 0 @@ "main" :> 3)),content |-> [ns_const |-> 0, const_table |-> 0, registry |-> w2, scratch |-> 0, lazy_flag |-> 0, lazy_table |-> 0],lockVC |-> (w1 :> 0 @@ w2 :> 0 @@ "main" :> 0),ncall |-> (w1 :> 0 @@ w2 :> 0),results |-> (w1 :> <<>> @@ w2 :> <<>>),lastW |-> [ns_const |-> [c |-> 1, t |-> "main"], const_table |-> [c |-> 1, t |-> "main"], registry |-> [c |-> 1, t |-> w2], scratch |-> [c |-> 0, t |-> "none"], lazy_flag |-> [c |-> 0, t |-> "none"], lazy_table |-> [c |-> 0, t |-> "none"]]]),
    ([mpc |-> "spawn",lastR |-> [ns_const |-> (w1 :> 0 @@ w2 :> 0 @@ "main" :> 0), const_table |-> (w1 :> 0 @@ w2 :> 0 @@ "main" :> 0), registry |-> (w1 :> 0 @@ w2 :> 0 @@ "main" :> 0), scratch |-> (w1 :> 0 @@ w2 :> 0 @@ "main" :> 0), lazy_flag |-> (w1 :> 0 @@ w2 :> 0 @@ "main" :> 0), lazy_table |-> (w1 :> 0 @@ w2 :> 0 @@ "main" :> 0)],race |-> TRUE,need |-> (w1 :> FALSE @@ w2 :> FALSE),held |-> (w1 :> FALSE @@ w2 :> FALSE),joined |-> {},ip |-> (w1 :> 2 @@ w2 :> 2),lockHeld |-> "none",started |-> {w1, w2},vc |-> (w1 :> (w1 :> 1 @@ w2 :> 0 @@ "main" :> 2) @@ w2 :> (w1 :> 0 @@ w2 :> 1 @@ "main" :> 1) @@ "main" :> (w1 :> 0 @@ w2 :> 0 @@ "main" :> 3)),content |-> [ns_const |-> 0, const_table |-> 0, registry |-> w1, scratch |-> 0, lazy_flag |-> 0, lazy_table |-> 0],lockVC |-> (w1 :> 0 @@ w2 :> 0 @@ "main" :> 0),ncall |-> (w1 :> 0 @@ w2 :> 0),results |-> (w1 :> <<>> @@ w2 :> <<>>),lastW |-> [ns_const |-> [c |-> 1, t |-> "main"], const_table |-> [c |-> 1, t |-> "main"], registry |-> [c |-> 1, t |-> w1], scratch |-> [c |-> 0, t |-> "none"], lazy_flag |-> [c |-> 0, t |-> "none"], lazy_table |-> [c |-> 0, t |-> "none"]]])
    >>
----


=============================================================================

---- MODULE SharedCells_TEConstants ----
EXTENDS SharedCells

CONSTANTS w1, w2

=============================================================================

---- CONFIG SharedCells_TTrace_1791084592 ----
CONSTANTS
    Workers = { w1 , w2 }
    Calls = 2
    Variant = "insert_on_lookup"
    w1 = w1
    w2 = w2

INVARIANT
    _inv

CHECK_DEADLOCK
    \* CHECK_DEADLOCK off because of PROPERTY or INVARIANT above.
    FALSE

INIT
    _init

NEXT
    _next

CONSTANT
    _TETrace <- _trace

ALIAS
    _expression
=============================================================================
\* Generated on Sun Oct 04 03:29:53 UTC 2026