SPECIFICATION Spec
CONSTANTS Workloads = {"catalogue", "dns", "tags", "reasm", "addr", "radiotap", "wifi", "build", "pcap", "handshakes"}
  Ks = {2}
  Iters = 4
  Reps = 2
CONSTRAINT Emit
CHECK_DEADLOCK FALSE
