SPECIFICATION Spec
CONSTRAINT Mark
CONSTRAINT Skipped
POSTCONDITION AllAccepted
CHECK_DEADLOCK FALSE
