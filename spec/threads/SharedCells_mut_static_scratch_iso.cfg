SPECIFICATION Spec
CONSTANTS Workers = {w1, w2}
  Calls = 2
  Variant = "static_scratch"
INVARIANTS Isolated
CHECK_DEADLOCK FALSE
