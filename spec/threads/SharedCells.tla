------------------------------ MODULE SharedCells ------------------------------
(* C18: "Parsing, building, copying, serializing, reassembling and decrypting through objects that are not
   shared between threads involves no unsynchronised access to hidden shared mutable state inside libtins, under
   every interleaving of the threads.  Each thread obtains exactly the results the same calls produce when run
   alone."

   The model has one main thread and a set of workers.  What libtins keeps at namespace scope is a small set of
   CELLS, each governed by a PROTOCOL; a library call made by a worker is a short script of accesses to those
   cells.  Happens-before is tracked with vector clocks exactly as a dynamic race detector does (fork, join,
   lock release -> acquire), so NoRace below is the property ThreadSanitizer observes on the real code and TLC
   decides it for EVERY interleaving of the scripts.

   Cells (the inventory of writable namespace-scope objects of the library, tools/families/c18.py reads it from
   the object files with nm and ThreadsTrace checks that every cell found belongs to a class modelled here):
     ns_const     IPv4Address::broadcast, private_ranges, loopback_range, multicast_range, IPv6 loopback_address,
                  multicast_range, local_unicast_range, HWAddress<n>::broadcast, EthernetII/Dot3/Dot11::BROADCAST:
                  written once by static initialisation (before main, hence before any thread exists), then only read
     const_table  crc32 table, RadioTap metadata, TKIP S-box: constant-initialised, only read
     registry     PDUAllocator<Tag>::allocators / pdu_types: filled by static initialisation, written by the USER's
                  register_allocator (documented to be done before parsing), only read (find) on the parse path
     scratch      per-call scratch space (DNS::convert_records buffers, AES key schedules, RC4 state): lives on
                  the stack / inside the caller's object in the code; a variant makes it static
     lazy_flag, lazy_table
                  a lazily built table: NOT present in the code; modelled because it is the natural "later
                  optimisation" the property warns about (guarded with a lock / C++11 magic static it is fine,
                  unguarded or with a plain double-checked flag it races)

   Variant selects the scripts:
     "code"             what the library does
     "lazy_guarded"     a lazily built table behind a lock (allowed: must satisfy NoRace)
     "static_scratch"   scratch space moved to a function-local static            (must be refuted)
     "insert_on_lookup" registry lookup with operator[] (inserts unknown ids)     (must be refuted)
     "lazy_unguarded"   lazily built table, unguarded flag                         (must be refuted)
     "lazy_dcl"         double-checked flag, plain (non-atomic) first check        (must be refuted)
     "register_during"  the USER registers a protocol while workers parse: outside the property's premise
                        ("user-registered allocator maps are only read while parsing"); refuted, which shows the
                        premise is needed *)
EXTENDS Naturals, FiniteSets, Sequences, TLC

CONSTANTS Workers,     \* set of worker ids
          Calls,       \* library calls per worker
          Variant

Main == "main"
Thr  == Workers \cup {Main}
None == "none"
Cells == {"ns_const", "const_table", "registry", "scratch", "lazy_flag", "lazy_table"}

Op(o, c) == [op |-> o, c |-> c]
(* the script of ONE library call on a thread-private object *)
Script ==
  CASE Variant \in {"code", "register_during"} ->
         << Op("r", "registry"), Op("r", "ns_const"), Op("r", "const_table"), Op("ret_private", None) >>
    [] Variant = "static_scratch" ->
         << Op("r", "registry"), Op("w", "scratch"), Op("r", "ns_const"), Op("r", "const_table"), Op("ret_cell", "scratch") >>
    [] Variant = "insert_on_lookup" ->
         << Op("w", "registry"), Op("r", "ns_const"), Op("r", "const_table"), Op("ret_private", None) >>
    [] Variant = "lazy_unguarded" ->
         << Op("r", "registry"), Op("rflag", "lazy_flag"), Op("wif", "lazy_table"), Op("wif", "lazy_flag"),
            Op("r", "lazy_table"), Op("ret_private", None) >>
    [] Variant = "lazy_guarded" ->
         << Op("r", "registry"), Op("acq", None), Op("rflag", "lazy_flag"), Op("wif", "lazy_table"), Op("wif", "lazy_flag"),
            Op("rel", None), Op("r", "lazy_table"), Op("ret_private", None) >>
    [] Variant = "lazy_dcl" ->
         << Op("r", "registry"), Op("rflag", "lazy_flag"), Op("acqif", None), Op("rflagif", "lazy_flag"), Op("wif", "lazy_table"),
            Op("wif", "lazy_flag"), Op("relif", None), Op("r", "lazy_table"), Op("ret_private", None) >>

VARIABLES vc,        \* [Thr -> [Thr -> Nat]]   vector clocks
          lastW,     \* [Cells -> [t, c]]       epoch of the last write
          lastR,     \* [Cells -> [Thr -> Nat]] clock of each thread's last read (0: none)
          lockVC,    \* vector clock left in the lock by its last release
          lockHeld,  \* holder of the lock or None
          content,   \* [Cells -> value]        scratch: last writer; lazy_flag: 0/1
          mpc,       \* main's program counter
          started, joined,    \* sets of workers
          ip,        \* [Workers -> position in Script]
          ncall,     \* [Workers -> calls completed]
          need,      \* [Workers -> BOOLEAN]    the local "table not built yet" of the lazy variants
          held,      \* [Workers -> BOOLEAN]    took the lock in this call (acqif)
          results,   \* [Workers -> Seq(value)] what each call returned
          race       \* a pair of conflicting accesses unordered by happens-before has occurred
vars == <<vc, lastW, lastR, lockVC, lockHeld, content, mpc, started, joined, ip, ncall, need, held, results, race>>

Zero == [t \in Thr |-> 0]
Max(a, b) == IF a >= b THEN a ELSE b
JoinVC(a, b) == [t \in Thr |-> Max(a[t], b[t])]
Tick(t) == [vc EXCEPT ![t][t] = @ + 1]

WriteOrdered(t, c) == lastW[c].t = None \/ lastW[c].c <= vc[t][lastW[c].t]
ReadsOrdered(t, c) == \A u \in Thr : lastR[c][u] <= vc[t][u]

Read(t, c) == /\ race' = (race \/ ~WriteOrdered(t, c))
              /\ lastR' = [lastR EXCEPT ![c][t] = vc[t][t]]
              /\ UNCHANGED lastW
Write(t, c) == /\ race' = (race \/ ~WriteOrdered(t, c) \/ ~ReadsOrdered(t, c))
               /\ lastW' = [lastW EXCEPT ![c] = [t |-> t, c |-> vc[t][t]]]
               /\ UNCHANGED lastR

Init == /\ vc = [t \in Thr |-> [Zero EXCEPT ![t] = 1]]
        /\ lastW = [c \in Cells |-> [t |-> None, c |-> 0]]
        /\ lastR = [c \in Cells |-> Zero]
        /\ lockVC = Zero /\ lockHeld = None
        /\ content = [c \in Cells |-> 0]
        /\ mpc = "static_init"
        /\ started = {} /\ joined = {}
        /\ ip = [w \in Workers |-> 1] /\ ncall = [w \in Workers |-> 0]
        /\ need = [w \in Workers |-> FALSE] /\ held = [w \in Workers |-> FALSE]
        /\ results = [w \in Workers |-> << >>]
        /\ race = FALSE

(* ---- main thread ---- *)
(* static initialisation: namespace-scope constants and the default protocol tables are written before main() *)
StaticInit == /\ mpc = "static_init"
              /\ lastW' = [c \in Cells |-> IF c \in {"ns_const", "const_table", "registry"} THEN [t |-> Main, c |-> vc[Main][Main]] ELSE lastW[c]]
              /\ mpc' = "user_reg"
              /\ UNCHANGED <<vc, lastR, lockVC, lockHeld, content, started, joined, ip, ncall, need, held, results, race>>
(* the user may register protocols of their own before starting threads *)
UserRegister == /\ mpc = "user_reg"
                /\ Write(Main, "registry")
                /\ mpc' = "spawn"
                /\ UNCHANGED <<vc, lockVC, lockHeld, content, started, joined, ip, ncall, need, held, results>>
SkipRegister == /\ mpc = "user_reg" /\ mpc' = "spawn" /\ UNCHANGED <<vc, lastW, lastR, lockVC, lockHeld, content, started, joined, ip, ncall, need, held, results, race>>
Spawn(w) == /\ mpc = "spawn" /\ w \notin started
            /\ vc' = [vc EXCEPT ![w] = JoinVC(vc[w], vc[Main]), ![Main][Main] = @ + 1]      \* thread creation is a happens-before edge
            /\ started' = started \cup {w}
            /\ UNCHANGED <<lastW, lastR, lockVC, lockHeld, content, mpc, joined, ip, ncall, need, held, results, race>>
(* outside the premise: registering while workers run *)
LateRegister == /\ Variant = "register_during" /\ mpc = "spawn" /\ started # {}
                /\ Write(Main, "registry")
                /\ UNCHANGED <<vc, lockVC, lockHeld, content, mpc, started, joined, ip, ncall, need, held, results>>
AllSpawned == /\ mpc = "spawn" /\ started = Workers /\ mpc' = "join"
              /\ UNCHANGED <<vc, lastW, lastR, lockVC, lockHeld, content, started, joined, ip, ncall, need, held, results, race>>
JoinW(w) == /\ mpc = "join" /\ w \in started \ joined /\ ncall[w] = Calls
            /\ vc' = [vc EXCEPT ![Main] = JoinVC(vc[Main], vc[w]), ![w][w] = @ + 1]
            /\ joined' = joined \cup {w}
            /\ UNCHANGED <<lastW, lastR, lockVC, lockHeld, content, mpc, started, ip, ncall, need, held, results, race>>
(* after joining, main may use and reconfigure the library again *)
After == /\ mpc = "join" /\ joined = Workers
         /\ Write(Main, "registry")
         /\ mpc' = "done"
         /\ UNCHANGED <<vc, lockVC, lockHeld, content, started, joined, ip, ncall, need, held, results>>

(* ---- workers ---- *)
Cur(w) == Script[ip[w]]
Advance(w) == ip' = [ip EXCEPT ![w] = @ + 1]
Running(w) == w \in started /\ ncall[w] < Calls
Skip(w) == Advance(w) /\ UNCHANGED <<vc, lastW, lastR, lockVC, lockHeld, content, mpc, started, joined, ncall, need, held, results, race>>

StepR(w) == /\ Running(w) /\ Cur(w).op = "r"
            /\ Read(w, Cur(w).c) /\ Advance(w)
            /\ UNCHANGED <<vc, lockVC, lockHeld, content, mpc, started, joined, ncall, need, held, results>>
StepW(w) == /\ Running(w) /\ Cur(w).op = "w"
            /\ Write(w, Cur(w).c) /\ Advance(w)
            /\ content' = [content EXCEPT ![Cur(w).c] = w]
            /\ UNCHANGED <<vc, lockVC, lockHeld, mpc, started, joined, ncall, need, held, results>>
StepRFlag(w) == /\ Running(w) /\ (Cur(w).op = "rflag" \/ (Cur(w).op = "rflagif" /\ held[w]))
                /\ Read(w, Cur(w).c) /\ Advance(w)
                /\ need' = [need EXCEPT ![w] = (content[Cur(w).c] = 0)]
                /\ UNCHANGED <<vc, lockVC, lockHeld, content, mpc, started, joined, ncall, held, results>>
StepWIf(w) == /\ Running(w) /\ Cur(w).op = "wif" /\ need[w]
              /\ Write(w, Cur(w).c) /\ Advance(w)
              /\ content' = [content EXCEPT ![Cur(w).c] = 1]
              /\ UNCHANGED <<vc, lockVC, lockHeld, mpc, started, joined, ncall, need, held, results>>
StepSkipIf(w) == /\ Running(w)
                 /\ \/ Cur(w).op = "wif" /\ ~need[w]
                    \/ Cur(w).op \in {"rflagif", "relif"} /\ ~held[w]
                    \/ Cur(w).op = "acqif" /\ ~need[w]
                 /\ Skip(w)
StepAcq(w) == /\ Running(w) /\ (Cur(w).op = "acq" \/ (Cur(w).op = "acqif" /\ need[w]))
              /\ lockHeld = None
              /\ lockHeld' = w /\ held' = [held EXCEPT ![w] = TRUE]
              /\ vc' = [vc EXCEPT ![w] = JoinVC(vc[w], lockVC)]
              /\ Advance(w)
              /\ UNCHANGED <<lastW, lastR, lockVC, content, mpc, started, joined, ncall, need, results, race>>
StepRel(w) == /\ Running(w) /\ (Cur(w).op = "rel" \/ (Cur(w).op = "relif" /\ held[w]))
              /\ lockHeld = w
              /\ lockHeld' = None /\ held' = [held EXCEPT ![w] = FALSE]
              /\ lockVC' = vc[w]
              /\ vc' = Tick(w)
              /\ Advance(w)
              /\ UNCHANGED <<lastW, lastR, content, mpc, started, joined, ncall, need, results, race>>
(* the call returns: either what the thread's own scratch space holds (its own data) or what the shared cell holds *)
StepRet(w) == /\ Running(w) /\ Cur(w).op \in {"ret_private", "ret_cell"}
              /\ IF Cur(w).op = "ret_cell"
                   THEN Read(w, Cur(w).c) /\ results' = [results EXCEPT ![w] = Append(@, content[Cur(w).c])]
                   ELSE results' = [results EXCEPT ![w] = Append(@, w)] /\ UNCHANGED <<lastW, lastR, race>>
              /\ ip' = [ip EXCEPT ![w] = 1]
              /\ ncall' = [ncall EXCEPT ![w] = @ + 1]
              /\ UNCHANGED <<vc, lockVC, lockHeld, content, mpc, started, joined, need, held>>

Next == \/ StaticInit \/ UserRegister \/ SkipRegister \/ LateRegister \/ AllSpawned \/ After
        \/ \E w \in Workers : Spawn(w) \/ JoinW(w) \/ StepR(w) \/ StepW(w) \/ StepRFlag(w) \/ StepWIf(w) \/ StepSkipIf(w)
                               \/ StepAcq(w) \/ StepRel(w) \/ StepRet(w)
Spec == Init /\ [][Next]_vars

(* ---- the property ---- *)
(* "involves no unsynchronised access to hidden shared mutable state inside libtins, under every interleaving" *)
NoRaceObs(r) == ~r
NoRace == NoRaceObs(race)
(* "Each thread obtains exactly the results the same calls produce when run alone": alone, a call returns the
   thread's own data *)
IsolatedObs(W, res) == \A w \in W : \A i \in 1..Len(res[w]) : res[w][i] = w
Isolated == IsolatedObs(Workers, results)
(* the model is not vacuous: every worker finishes all its calls and main gets to the end *)
Finished == mpc = "done" /\ \A w \in Workers : ncall[w] = Calls
NotFinished == ~Finished
=============================================================================
