SPECIFICATION Spec
CONSTANTS Workers = {w1, w2}
  Calls = 2
  Variant = "code"
INVARIANTS NotFinished
CHECK_DEADLOCK FALSE
