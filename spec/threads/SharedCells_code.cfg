SPECIFICATION Spec
CONSTANTS Workers = {w1, w2, w3}
  Calls = 2
  Variant = "code"
INVARIANTS NoRace Isolated
CHECK_DEADLOCK FALSE
