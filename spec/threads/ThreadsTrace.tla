------------------------------ MODULE ThreadsTrace ------------------------------
(* Trace specification for C18: validates what harness/threads.cpp observed on the real library, built with
   ThreadSanitizer, against the property as SharedCells states it.

   "run" event: k threads ran their workloads concurrently on thread-private objects after each workload had
   been run alone.
     SharedCells!NoRace   -> the happens-before detector raised no report during the concurrent phase
     SharedCells!Isolated -> every thread's digest of everything its calls returned equals the digest of the
                             same calls run alone
   "inventory" event: the writable namespace-scope objects found in the library's object files; each must belong
   to a class of cell whose protocol SharedCells models (and proves race-free for the "code" variant).  A cell of an
   unknown class is not a violation by itself - it may be properly synchronised - so the oracle notes it (register
   3, reported as UNMODELLED-GLOBAL by the family script) and relies on the detector. *)
EXTENDS TraceIO
VARIABLE unmodelled
vars == <<ex, l, unmodelled>>
Init == \E s \in Starts : TraceInit(s) /\ unmodelled = FALSE

(* the property's two clauses, as SharedCells states them (its variables are irrelevant to these operators) *)
SC == INSTANCE SharedCells WITH Workers <- {}, Calls <- 0, Variant <- "code", vc <- 0, lastW <- 0, lastR <- 0, lockVC <- 0,
         lockHeld <- 0, content <- 0, mpc <- 0, started <- 0, joined <- 0, ip <- 0, ncall <- 0, need <- 0, held <- 0,
         results <- 0, race <- 0
(* what a thread observed, in the model's terms: its own data (its own id) iff the digests agree *)
Observed(e) == [w \in 1..e.k |-> << IF e.par[w] = e.seq[w] THEN w ELSE 0 >>]

ModelledClasses == {"ns_const", "const_table", "registry", "hook", "foreign"}

Run == /\ IsEvent("run")
       /\ Ev.k = Len(Ev.wl) /\ Ev.k = Len(Ev.seq) /\ Ev.k = Len(Ev.par) /\ Ev.k >= 2
       /\ SC!NoRaceObs(Ev.races > 0)                                \* no unsynchronised access to hidden shared state
       /\ SC!IsolatedObs(1..Ev.k, Observed(Ev))                     \* exactly the results of the same calls run alone
       /\ \A i \in 1..Ev.k : Ev.good[i] > 0                         \* (the workload did reach the code it is there for)
       /\ UNCHANGED unmodelled
Inventory == /\ IsEvent("inventory")
             /\ unmodelled' = (unmodelled \/ \E i \in 1..Len(Ev.cells) : Ev.cells[i].cls \notin ModelledClasses)
Next == Run \/ Inventory
Spec == Init /\ [][Next]_vars
Skipped == NoteSkipped(unmodelled)
=============================================================================
