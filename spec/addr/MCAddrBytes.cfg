SPECIFICATION Spec
CONSTANT DigitBits = 2
CONSTANT N = 3
