SPECIFICATION Spec
CONSTANT W = 5
CONSTRAINT Emit
CHECK_DEADLOCK FALSE
