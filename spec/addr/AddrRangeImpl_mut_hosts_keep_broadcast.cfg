SPECIFICATION Spec
CONSTANT W = 4
CONSTANT Style = "buf"
CONSTANT Variant = "hosts_keep_broadcast"
CONSTANT ExcludeFull = FALSE
INVARIANT EndsOK
INVARIANT ContainsOK
INVARIANT IterableOK
INVARIANT VisitsOK
INVARIANT CompleteOK
PROPERTY Terminates
CHECK_DEADLOCK FALSE
