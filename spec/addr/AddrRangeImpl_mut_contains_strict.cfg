SPECIFICATION Spec
CONSTANT W = 4
CONSTANT Style = "buf"
CONSTANT Variant = "contains_strict"
CONSTANT ExcludeFull = FALSE
INVARIANT EndsOK
INVARIANT ContainsOK
INVARIANT IterableOK
INVARIANT VisitsOK
INVARIANT CompleteOK
PROPERTY Terminates
CHECK_DEADLOCK FALSE
