SPECIFICATION Spec
CONSTANT W = 5
CONSTANT Style = "buf"
CONSTANT Variant = "code"
CONSTANT ExcludeFull = FALSE
INVARIANT EndsOK
INVARIANT ContainsOK
INVARIANT IterableOK
INVARIANT VisitsOK
INVARIANT CompleteOK
PROPERTY Terminates
CHECK_DEADLOCK FALSE
