---------------------------- MODULE AddrRangeImpl ----------------------------
(* Implementation-shaped specification of Tins::AddressRange<> / AddressRangeIterator<> (include/tins/
   address_range.h, src/address_range.cpp, src/detail/address_helpers.cpp), checked by TLC against the
   property-level operators of AddrRange for EVERY range of a W-bit address space: all addresses x all prefix
   lengths, all addresses x all masks, all explicit [first,last] pairs.

   Mirrors the code:
     from_mask(a, m)       = AddressRange(a & m, last_address_from_mask(a, m) = a | ~m, only_hosts = true)
     a / p                 = from_mask(a, from_prefix_length(p))
     from_prefix_length(p) = p ? 0xffffffff << (32 - p) : 0        (IPv4; IPv6/HW fill bytes, then 0xff << (8 - p))
     contains(x)           = (first < x && x < last) || x == first || x == last
     iterator              = (address, reached_end); operator== compares BOTH fields
     ++it                  : reached_end = Internals::increment(address)
     begin()               = iterator(only_hosts ? first + 1 : first)           reached_end = false
     end()                 = iterator(only_hosts ? last - 1 : last, end_iterator)  i.e. incremented once
     increment, Style "v4" : ++addr; returns (addr == 0xffffffff)   -- true when the RESULT is all-ones
     increment, Style "buf": returns true iff the address WAS all-ones (and wrapped to zero)   (IPv6, HWAddress)
     is_iterable()         : !only_hosts, or first+3 (no "end" reported by the first two increments) <= last

   Variant "code" is the design this family holds the code to; the other variants are model-level mutants that
   TLC must refute (non-vacuity).  Two of them are not hypothetical:
     "iterable_wrap"  is_iterable() exactly as in the tree under test: after three increments it only compares
                      with last_.  With the "v4" increment the wrap 0xffffffff -> 0 reports no end, so
                      255.255.255.255/32 claims to be iterable and begin()..end() then walks 0,1,2,...
                      "code" adds the missing  first_ < addr  test (the proposed repair).
     ExcludeFull = FALSE with Style "v4": the explicit range [0, all-ones]: end() is (0, false) = begin(), the
                      iteration is empty.  Outside the property's quantifier (ranges with <= 2^16 elements;
                      this one has 2^32), therefore excluded from the "code" configurations and documented by a
                      configuration that TLC refutes. *)
EXTENDS Naturals, Integers, Sequences, FiniteSets, TLC
CONSTANTS W, Style, Variant, ExcludeFull
A == INSTANCE AddrRange
Top == A!Top
Addr == A!Addr

Incr(a) == LET n == (a + 1) % (Top + 1) IN
           IF Style = "v4" THEN <<n, n = Top>>      \* bool reached_end = ++addr_int == 0xffffffff
                           ELSE <<n, a = Top>>      \* increment_buffer: every byte was 0xff -> all zero, return true
Decr(a) == (a + Top) % (Top + 1)                    \* the flag decrement() returns is not used by AddressRange

MaskOfPrefix(p) == IF p = 0 THEN (IF Variant = "prefix0_shift" THEN Top ELSE 0)   \* mutant: shift by the full width
                   ELSE (Top * 2^(W - p)) % 2^W
FromMaskImpl(a, m) == [first |-> A!And(a, m), last |-> A!Or(a, A!Not(m)), hosts |-> TRUE]
RangeImpl(s) == CASE s.k = "prefix" -> FromMaskImpl(s.a, MaskOfPrefix(s.b))
                  [] s.k = "mask"   -> FromMaskImpl(s.a, s.b)
                  [] s.k = "pair"   -> [first |-> s.a, last |-> s.b, hosts |-> FALSE]
                  [] s.k = "pairhosts" -> [first |-> s.a, last |-> s.b, hosts |-> TRUE]

ContainsImpl(r, x) == IF Variant = "contains_strict" THEN r.first < x /\ x < r.last
                      ELSE (r.first < x /\ x < r.last) \/ x = r.first \/ x = r.last

Begin(r) == [addr |-> IF r.hosts THEN Incr(r.first)[1] ELSE r.first, re |-> FALSE]
End(r) == LET l == IF r.hosts /\ Variant # "hosts_keep_broadcast" THEN Decr(r.last) ELSE r.last
              i == Incr(l)
          IN IF Variant = "end_is_last" THEN [addr |-> l, re |-> FALSE] ELSE [addr |-> i[1], re |-> i[2]]
Step(it) == LET i == Incr(it.addr) IN [addr |-> i[1], re |-> i[2]]
\* the loop test  it != end
AtEnd(it, e) == IF Variant = "stop_on_flag" THEN it.re \/ it = e      \* mutant: stop as soon as an end is reported
                ELSE it = e

IsIterableImpl(r) ==
    IF ~r.hosts THEN TRUE
    ELSE LET i1 == Incr(r.first) i2 == Incr(i1[1]) i3 == Incr(i2[1]) IN
         IF i1[2] \/ i2[2] THEN FALSE
         ELSE /\ i3[1] <= r.last
              /\ (Variant = "iterable_wrap" \/ r.first < i3[1])

VARIABLES src, it, visited
vars == <<src, it, visited>>
R  == RangeImpl(src)
AR == A!RangeOf(src)
(* iteration is defined when the property's precondition holds, or when the implementation itself says so *)
Active == A!IsIterable(AR) \/ IsIterableImpl(R)
Finished == ~Active \/ AtEnd(it, End(R))

Init == /\ src \in A!Sources
        /\ (ExcludeFull => ~(src.k = "pair" /\ src.a = 0 /\ src.b = Top))
        /\ it = Begin(RangeImpl(src))
        /\ visited = <<>>
Next == /\ ~Finished
        /\ visited' = Append(visited, it.addr)
        /\ it' = Step(it)
        /\ UNCHANGED src
Spec == Init /\ [][Next]_vars /\ WF_vars(Next)

IsPrefixOf(s, t) == Len(s) <= Len(t) /\ \A i \in 1..Len(s) : s[i] = t[i]
EndsOK     == src.k # "pair" => R = AR                                   \* "starts at address AND mask, ends at address OR NOT mask"
ContainsOK == \A x \in Addr : ContainsImpl(R, x) <=> A!Contains(AR, x)   \* "contains exactly the addresses between its ends"
IterableOK == A!IsIterable(AR) => IsIterableImpl(R)
VisitsOK   == Active => \E s \in A!IterSeqsOf(src) : IsPrefixOf(visited, s)     \* "exactly once in increasing order"
CompleteOK == (Active /\ AtEnd(it, End(R))) => visited \in A!IterSeqsOf(src)    \* "visits each address"
Terminates == <>Finished                                                        \* "and terminates"
=============================================================================
