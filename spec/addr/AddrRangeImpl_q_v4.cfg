SPECIFICATION Spec
CONSTANT W = 5
CONSTANT Style = "v4"
CONSTANT Variant = "code"
CONSTANT ExcludeFull = TRUE
INVARIANT EndsOK
INVARIANT ContainsOK
INVARIANT IterableOK
INVARIANT VisitsOK
INVARIANT CompleteOK
PROPERTY Terminates
CHECK_DEADLOCK FALSE
