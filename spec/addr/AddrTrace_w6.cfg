SPECIFICATION Spec
CONSTANT W = 6
CONSTRAINT Mark
CONSTRAINT MarkSilent
POSTCONDITION AllAccepted
CHECK_DEADLOCK FALSE
