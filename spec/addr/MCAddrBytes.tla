----------------------------- MODULE MCAddrBytes -----------------------------
(* Bridge lemma: for N digits of DigitBits bits, the digit-wise operators of AddrBytes coincide with the numeric
   operators of AddrRange on W = N*DigitBits bits.  Checked by TLC as ASSUMEs for all addresses, masks, prefixes. *)
EXTENDS AddrBytes, TLC
CONSTANT N
W == N * DigitBits
R == INSTANCE AddrRange
Seqs == [1..N -> 0..(Radix - 1)]
ASSUME OrderLemma == \A a, b \in Seqs : /\ (Num(a) < Num(b)) <=> LexLess(a, b)
                                        /\ (Num(a) = Num(b)) <=> (a = b)
                                        /\ (Num(a) <= Num(b)) <=> LexLE(a, b)
ASSUME MaskLemma  == \A a, m \in Seqs : /\ Num(AndB(a, m)) = R!And(Num(a), Num(m))
                                        /\ Num(OrNotB(a, m)) = R!Or(Num(a), R!Not(Num(m)))
ASSUME PrefixLemma == \A p \in 0..W : Num(MaskB(N, p)) = R!PrefixMask(p)
ASSUME RangeLemma == \A a \in Seqs : \A p \in 0..W : \A x \in Seqs :
                        ContainsB(a, MaskB(N, p), x) <=> R!Contains(R!FromPrefix(Num(a), p), Num(x))
ASSUME AddLemma == \A a \in Seqs : \A k \in 0..(2 * Radix^N) : /\ Num(AddK(a, k)) = (Num(a) + k) % Radix^N
                                                               /\ Wraps(a, k) <=> (Num(a) + k >= Radix^N)
VARIABLE x
Init == x = 0
Next == UNCHANGED x
Spec == Init /\ [][Next]_x
=============================================================================
