----------------------------- MODULE AddrRangeGen -----------------------------
(* Scenario generator for the range half of C16: EVERY way of deriving a range in the W-bit model space
   (AddrRange!Sources: all addresses x all prefix lengths, all addresses x all masks, all explicit pairs
   first <= last), exported as {"kind":"range","W":W,"k","a","b"} together with what the property demands
   of it (for the evidence counters; the verdict is recomputed by AddrTrace).  The replay driver embeds each
   one into IPv4Address, IPv6Address and HWAddress<6> at the bottom, middle and top of the real address space. *)
EXTENDS Naturals, Integers, Sequences, FiniteSets, TLC, Json
CONSTANT W
R == INSTANCE AddrRange
VARIABLE src
Init == src \in R!Sources
Next == UNCHANGED src
Spec == Init /\ [][Next]_src
Emit == PrintT("SCN " \o ToJson([kind |-> "range", W |-> W, k |-> src.k, a |-> src.a, b |-> src.b,
                                 iterable |-> R!IsIterable(R!RangeOf(src)),
                                 top |-> (R!RangeOf(src).last = R!Top)]))
=============================================================================
