SPECIFICATION Spec
CONSTANT W = 4
CONSTANT Style = "v4"
CONSTANT Variant = "stop_on_flag"
CONSTANT ExcludeFull = TRUE
INVARIANT EndsOK
INVARIANT ContainsOK
INVARIANT IterableOK
INVARIANT VisitsOK
INVARIANT CompleteOK
PROPERTY Terminates
CHECK_DEADLOCK FALSE
