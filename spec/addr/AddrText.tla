------------------------------- MODULE AddrText -------------------------------
(* Property C16, first sentence -- the textual forms of addresses, as recognisers over character sequences.

   "For every IPv4, IPv6 and hardware address, parsing its textual form returns the same address ... and
    strings that are not valid addresses are rejected with an error."

   A string is a sequence of one-character strings.  For each address family there is a classifier
       Class(s) \in {"accept", "reject", "unspec"}
   and, for accepted strings, Value(s): the address bytes the text denotes.

     "accept"  s is a textual form of an address in the reference grammar: parsing it must succeed and must
               return exactly Value(s)                       ("parsing its textual form returns the same address")
     "reject"  s is clearly not a valid address: parsing must fail with an error
                                                              ("strings that are not valid addresses are rejected")
     "unspec"  forms on which reference parsers legitimately differ; NO verdict (DESIGN 5 rule 6):
        IPv4  - fewer than four numeric fields ("1", "1.2", "1.2.3": inet_aton shorthand, refused by inet_pton)
              - a field with a leading zero ("01", "00": octal for inet_aton, decimal for BSD inet_pton, refused by glibc)
        IPv6  - a group of more than four hex digits whose value fits 16 bits ("00001": old BSD parsers accept)
              - "::" standing for zero groups (eight pieces written out plus "::")
              - an embedded dotted quad that is itself "unspec"
        HW    - short forms: fewer than six groups, groups of fewer than two digits, the empty string (libtins
                zero-fills them), and the IEEE hyphen form "00-11-22-33-44-55"

   Reference grammars:
     IPv4  dotted quad: four decimal fields 0..255 separated by single dots (RFC 791 / RFC 3986 "IPv4address")
     IPv6  RFC 4291 section 2.2: (1) eight groups of 1..4 hex digits separated by ':', (2) one "::" standing for one
           or more zero groups, (3) the last 32 bits optionally written as a dotted quad; either letter case
     HW    EUI-48 as six groups of two hex digits separated by ':' (the form libtins prints), either letter case *)
EXTENDS Naturals, Integers, Sequences, FiniteSets, TLC

DecTab == "0" :> 0 @@ "1" :> 1 @@ "2" :> 2 @@ "3" :> 3 @@ "4" :> 4 @@ "5" :> 5 @@ "6" :> 6 @@ "7" :> 7 @@ "8" :> 8 @@ "9" :> 9
HexTab == DecTab @@ "a" :> 10 @@ "b" :> 11 @@ "c" :> 12 @@ "d" :> 13 @@ "e" :> 14 @@ "f" :> 15
                 @@ "A" :> 10 @@ "B" :> 11 @@ "C" :> 12 @@ "D" :> 13 @@ "E" :> 14 @@ "F" :> 15
DecChars == DOMAIN DecTab
HexChars == DOMAIN HexTab
Chars(s) == {s[i] : i \in 1..Len(s)}

(* split s at every occurrence of the character sep; fields may be empty; Split(<<>>) = << <<>> >> *)
SepIdx(s, sep) == LET F[i \in 0..Len(s)] == IF i = 0 THEN <<>> ELSE IF s[i] = sep THEN Append(F[i - 1], i) ELSE F[i - 1]
                  IN F[Len(s)]
Split(s, sep) == LET b == <<0>> \o SepIdx(s, sep) \o <<Len(s) + 1>>
                 IN [k \in 1..(Len(b) - 1) |-> SubSeq(s, b[k] + 1, b[k + 1] - 1)]
Flatten(ss) == LET F[i \in 0..Len(ss)] == IF i = 0 THEN <<>> ELSE F[i - 1] \o ss[i] IN F[Len(ss)]
(* drop leading zeros, keep one digit *)
StripZeros(f) == LET nz == {i \in 1..Len(f) : f[i] # "0"} IN
                 IF nz = {} THEN <<"0">> ELSE SubSeq(f, CHOOSE i \in nz : \A j \in nz : i <= j, Len(f))
NumIn(tab, base, f) == LET F[i \in 0..Len(f)] == IF i = 0 THEN 0 ELSE F[i - 1] * base + tab[f[i]] IN F[Len(f)]
Worst(cs) == IF "reject" \in cs THEN "reject" ELSE IF "unspec" \in cs THEN "unspec" ELSE "accept"

---------------------------------------------------------------------------------
(* IPv4 dotted quad *)
V4FieldClass(f) == IF Len(StripZeros(f)) > 3 \/ NumIn(DecTab, 10, StripZeros(f)) > 255 THEN "reject"   \* not an 8-bit value
                   ELSE IF Len(f) > 1 /\ f[1] = "0" THEN "unspec"                                    \* leading zero
                   ELSE "accept"
V4Class(s) ==
    IF ~(Chars(s) \subseteq DecChars \cup {"."}) THEN "reject"              \* foreign character (incl. blanks, signs, hex)
    ELSE LET f == Split(s, ".") IN
         IF \E k \in 1..Len(f) : Len(f[k]) = 0 THEN "reject"                \* empty string, leading/trailing/double dot
         ELSE IF Len(f) > 4 THEN "reject"                                   \* more than four fields
         ELSE IF Len(f) < 4 THEN "unspec"                                   \* shorthand
         ELSE Worst({V4FieldClass(f[k]) : k \in 1..4})
V4Value(s) == LET f == Split(s, ".") IN [k \in 1..4 |-> NumIn(DecTab, 10, StripZeros(f[k]))]

---------------------------------------------------------------------------------
(* IPv6, RFC 4291 section 2.2 *)
DoubleColons(s) == {i \in 1..(Len(s) - 1) : s[i] = ":" /\ s[i + 1] = ":"}
V6Parts(s) == \* [c: compressed?, l: groups before "::" (or all groups), r: groups after "::"]
    LET dc == DoubleColons(s) IN
    IF dc = {} THEN [c |-> FALSE, l |-> Split(s, ":"), r |-> <<>>]
    ELSE LET i == CHOOSE i \in dc : TRUE
             left == SubSeq(s, 1, i - 1)
             right == SubSeq(s, i + 2, Len(s)) IN
         [c |-> TRUE, l |-> IF left = <<>> THEN <<>> ELSE Split(left, ":"),
                      r |-> IF right = <<>> THEN <<>> ELSE Split(right, ":")]
IsDotted(g) == "." \in Chars(g)
(* atEnd: g is the last group and nothing follows it in the string *)
V6GroupClass(g, atEnd) ==
    IF IsDotted(g) THEN                                                    \* form (3): only as the final 32 bits
        IF ~atEnd THEN "reject"
        ELSE IF V4Class(g) = "accept" THEN "accept"
        ELSE IF V4Class(g) = "unspec" /\ Len(Split(g, ".")) = 4 THEN "unspec"
        ELSE "reject"
    ELSE IF Len(g) = 0 THEN "reject"                                       \* stray single ':' at an end, or ":::"
    ELSE IF Len(g) <= 4 THEN "accept"                                      \* "one to four hexadecimal digits"
    ELSE IF Len(StripZeros(g)) <= 4 THEN "unspec"
    ELSE "reject"
V6Pieces(gs) == LET F[i \in 0..Len(gs)] == IF i = 0 THEN 0 ELSE F[i - 1] + (IF IsDotted(gs[i]) THEN 2 ELSE 1) IN F[Len(gs)]
V6Class(s) ==
    IF ~(Chars(s) \subseteq HexChars \cup {":", "."}) THEN "reject"
    ELSE IF Cardinality(DoubleColons(s)) > 1 THEN "reject"                 \* "The '::' can only appear once" (also ":::")
    ELSE LET p == V6Parts(s)
             g == p.l \o p.r
             n == V6Pieces(g)
             endsWithGroup == ~p.c \/ p.r # <<>>
             gc == {V6GroupClass(g[k], k = Len(g) /\ endsWithGroup) : k \in 1..Len(g)}
             count == IF p.c THEN (IF n <= 7 THEN "accept" ELSE IF n = 8 THEN "unspec" ELSE "reject")
                      ELSE (IF n = 8 THEN "accept" ELSE "reject")
         IN Worst(gc \cup {count})
V6GroupBytes(g) == IF IsDotted(g) THEN V4Value(g)
                   ELSE LET v == NumIn(HexTab, 16, StripZeros(g)) IN <<v \div 256, v % 256>>
V6Value(s) == LET p == V6Parts(s)
                  lb == Flatten([k \in 1..Len(p.l) |-> V6GroupBytes(p.l[k])])
                  rb == Flatten([k \in 1..Len(p.r) |-> V6GroupBytes(p.r[k])])
              IN lb \o [i \in 1..(16 - Len(lb) - Len(rb)) |-> 0] \o rb

---------------------------------------------------------------------------------
(* hardware address, EUI-48 *)
HWClass(s) ==
    IF ~(Chars(s) \subseteq HexChars \cup {":"}) THEN
        IF /\ Chars(s) \subseteq HexChars \cup {"-"}
           /\ LET h == Split(s, "-") IN Len(h) = 6 /\ \A k \in 1..6 : Len(h[k]) = 2
        THEN "unspec"                                                      \* IEEE hyphen form
        ELSE "reject"                                                      \* foreign character anywhere in the string
    ELSE LET f == Split(s, ":") IN
         IF Len(f) > 6 THEN "reject"                                       \* more than six groups (also a trailing ':')
         ELSE IF \E k \in 1..Len(f) : Len(f[k]) > 2 THEN "reject"          \* a group is one octet
         ELSE IF Len(f) = 6 /\ \A k \in 1..6 : Len(f[k]) = 2 THEN "accept"
         ELSE "unspec"                                                     \* short forms
HWValue(s) == LET f == Split(s, ":") IN [k \in 1..6 |-> NumIn(HexTab, 16, f[k])]

---------------------------------------------------------------------------------
Class(t, s) == CASE t = "v4" -> V4Class(s) [] t = "v6" -> V6Class(s) [] t = "hw" -> HWClass(s)
Value(t, s) == CASE t = "v4" -> V4Value(s) [] t = "v6" -> V6Value(s) [] t = "hw" -> HWValue(s)
=============================================================================
