------------------------------ MODULE AddrBytes ------------------------------
(* Property C16 -- addresses at their real width, as sequences of digits (bytes, most significant first).

   "equality and ordering agree with the numeric order of the address bytes": the numeric order of equally long
   big-endian digit sequences is their lexicographic order (LexLess); ranges at real width are computed digit by
   digit (AndB, OrNotB, MaskB).  MCAddrBytes checks with TLC, for a small radix, that these digit-wise
   operators are exactly the numeric ones of AddrRange (the bridge between the W-bit model and 32/48/128 bits). *)
EXTENDS Naturals, Integers, Sequences, FiniteSets
CONSTANT DigitBits
Radix == 2^DigitBits
DBit(x, i) == (x \div 2^i) % 2
DSum(f) == LET S[i \in 0..DigitBits] == IF i = 0 THEN 0 ELSE S[i - 1] + f[i - 1] * 2^(i - 1) IN S[DigitBits]
AndD(x, y)   == DSum([i \in 0..(DigitBits - 1) |-> DBit(x, i) * DBit(y, i)])
OrNotD(x, m) == DSum([i \in 0..(DigitBits - 1) |-> IF DBit(x, i) = 1 \/ DBit(m, i) = 0 THEN 1 ELSE 0])
AndB(a, m)   == [i \in 1..Len(a) |-> AndD(a[i], m[i])]        \* address AND mask
OrNotB(a, m) == [i \in 1..Len(a) |-> OrNotD(a[i], m[i])]      \* address OR NOT mask
(* the mask with p leading one bits over n digits *)
MaskB(n, p) == [i \in 1..n |-> LET full == p \div DigitBits  rem == p % DigitBits IN
                               IF i <= full THEN Radix - 1 ELSE IF i = full + 1 THEN Radix - 2^(DigitBits - rem) ELSE 0]
(* numeric order of the address bytes *)
LexLess(a, b) == \E i \in 1..Len(a) : a[i] < b[i] /\ \A j \in 1..(i - 1) : a[j] = b[j]
LexLE(a, b)   == a = b \/ LexLess(a, b)
Num(a) == LET S[i \in 0..Len(a)] == IF i = 0 THEN 0 ELSE S[i - 1] * Radix + a[i] IN S[Len(a)]
(* a + k over the digits (k >= 0): the carries from the least significant digit upwards; Wraps = the sum leaves the address space *)
Carry(a, k) == LET n == Len(a)  C[i \in 0..n] == IF i = 0 THEN k ELSE (a[n - i + 1] + C[i - 1]) \div Radix IN C
AddK(a, k) == LET n == Len(a)  c == Carry(a, k) IN [j \in 1..n |-> (a[j] + c[n - j]) % Radix]
Wraps(a, k) == Carry(a, k)[Len(a)] # 0
(* real-width range derived from address a and prefix length p / mask m: its two ends and membership *)
FirstB(a, m) == AndB(a, m)
LastB(a, m)  == OrNotB(a, m)
ContainsB(a, m, x) == LexLE(FirstB(a, m), x) /\ LexLE(x, LastB(a, m))
=============================================================================
