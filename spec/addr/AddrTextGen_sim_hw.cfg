SPECIFICATION Spec
CONSTANT Mode = "hw"
CONSTANT Budget = 3
INVARIANT TypeOK
CONSTRAINT Emit
CHECK_DEADLOCK FALSE
