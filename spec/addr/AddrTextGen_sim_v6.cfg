SPECIFICATION Spec
CONSTANT Mode = "v6"
CONSTANT Budget = 3
INVARIANT TypeOK
CONSTRAINT Emit
CHECK_DEADLOCK FALSE
