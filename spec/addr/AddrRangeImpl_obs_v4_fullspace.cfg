SPECIFICATION Spec
CONSTANT W = 4
CONSTANT Style = "v4"
CONSTANT Variant = "code"
CONSTANT ExcludeFull = FALSE
INVARIANT EndsOK
INVARIANT ContainsOK
INVARIANT IterableOK
INVARIANT VisitsOK
INVARIANT CompleteOK
PROPERTY Terminates
CHECK_DEADLOCK FALSE
