SPECIFICATION Spec
CONSTANT W = 6
CONSTRAINT Emit
CHECK_DEADLOCK FALSE
