------------------------------ MODULE AddrRange ------------------------------
(* Property C16, second sentence -- address ranges over a W-bit address space, property level.

   "For every address and prefix length or mask, the derived range starts at address AND mask and ends at
    address OR NOT mask, contains exactly the addresses between its ends, and iterating it visits each address
    (each host address for prefix-derived ranges) exactly once in increasing order and terminates, including
    ranges that end at the all-ones address."

   Addresses are the numbers 0..2^W-1 ("numeric order of the address bytes").  A range is a record
       [first, last, hosts]      hosts = TRUE for ranges derived from a prefix length or a mask
   Everything here is a constant-level operator; the implementation-shaped iterator (AddrRangeImpl) is checked
   against these operators by TLC for every range of the W-bit space, and the trace specification (AddrTrace)
   applies the same operators to what the real AddressRange<> classes did.

   freedom (DESIGN 5 rule 2):
     - iteration of a hosts-only range without at least two hosts between its ends (last - first < 3; for
       prefix-derived ranges these are exactly /W-1 and /W, "a /31 or /32 range" in the words of
       AddressRange::is_iterable) is outside the property: libtins documents it as undefined.  IsIterable is
       that precondition; nothing is demanded of begin()/end() when it is false.
     - for a mask that is not a run of ones followed by zeros the property fixes the two ends and the
       membership; whether iteration skips the two ends ("host addresses") is only said for *prefix*-derived
       ranges, so MaskIterSeqs allows both readings for such masks. *)
EXTENDS Naturals, Integers, Sequences, FiniteSets
CONSTANT W
ASSUME W \in 1..12

Top  == 2^W - 1                      \* the all-ones address
Addr == 0..Top

(* bitwise operations on W-bit numbers, from arithmetic *)
Bit(a, i) == (a \div 2^i) % 2
Sum(f, S) == LET RECURSIVE S_(_) S_(T) == IF T = {} THEN 0 ELSE LET x == CHOOSE x \in T : TRUE IN f[x] + S_(T \ {x}) IN S_(S)
FromBits(b) == Sum([i \in 0..(W-1) |-> b[i] * 2^i], 0..(W-1))
And(a, b) == FromBits([i \in 0..(W-1) |-> Bit(a, i) * Bit(b, i)])
Or(a, b)  == FromBits([i \in 0..(W-1) |-> IF Bit(a, i) + Bit(b, i) > 0 THEN 1 ELSE 0])
Not(a)    == FromBits([i \in 0..(W-1) |-> 1 - Bit(a, i)])

(* "prefix length": the mask with p leading ones, p \in 0..W *)
PrefixMask(p) == Top - (2^(W - p) - 1)
IsPrefixMask(m) == \E p \in 0..W : m = PrefixMask(p)

(* "the derived range starts at address AND mask and ends at address OR NOT mask" *)
FromMask(a, m)   == [first |-> And(a, m), last |-> Or(a, Not(m)), hosts |-> TRUE]
FromPrefix(a, p) == FromMask(a, PrefixMask(p))
(* a range given by its two ends: every address is visited *)
Explicit(f, l)   == [first |-> f, last |-> l, hosts |-> FALSE]

(* "contains exactly the addresses between its ends" *)
Contains(r, x) == r.first <= x /\ x <= r.last

(* "iterating it visits each address (each host address for prefix-derived ranges) exactly once in increasing
    order": the required sequence of visited addresses *)
Interval(lo, hi) == [i \in 1..(IF hi >= lo THEN hi - lo + 1 ELSE 0) |-> lo + i - 1]
IterSeq(r) == IF r.hosts THEN Interval(r.first + 1, r.last - 1) ELSE Interval(r.first, r.last)
(* mask-derived, not a prefix mask: either reading of "host addresses" *)
MaskIterSeqs(r, m) == IF IsPrefixMask(m) THEN {IterSeq(r)} ELSE {IterSeq(r), Interval(r.first, r.last)}

(* precondition of iteration (see "freedom") *)
IsIterable(r) == ~r.hosts \/ r.last - r.first >= 3

(* the ways a range is derived; uniform record shape [k, a, b] so that TLC can compare them *)
Sources == [k : {"prefix"}, a : Addr, b : 0..W] \cup [k : {"mask"}, a : Addr, b : Addr]
           \cup {s \in [k : {"pair", "pairhosts"}, a : Addr, b : Addr] : s.a <= s.b}       \* pairhosts: AddressRange(first, last, only_hosts = true)
RangeOf(s) == CASE s.k = "prefix" -> FromPrefix(s.a, s.b)
                [] s.k = "mask"   -> FromMask(s.a, s.b)
                [] s.k = "pair"   -> Explicit(s.a, s.b)
                [] s.k = "pairhosts" -> [first |-> s.a, last |-> s.b, hosts |-> TRUE]
IterSeqsOf(s) == IF s.k = "mask" THEN MaskIterSeqs(RangeOf(s), s.b) ELSE {IterSeq(RangeOf(s))}
=============================================================================
