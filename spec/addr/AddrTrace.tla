------------------------------ MODULE AddrTrace ------------------------------
(* Trace specification for C16: validates what the real IPv4Address / IPv6Address / HWAddress<6> /
   AddressRange<> classes did (harness/addr_replay.cpp) against the property-level operators of AddrRange (W-bit
   windows), AddrBytes (real width) and AddrText (text).  One execution = one range in one window of one address
   type, one string given to one parser, or one row of a comparison table.  Each conjunct carries the sentence
   of the property that demands it.

   Window embedding: the driver places the model's W-bit space at an aligned base address of the real type and
   logs every address as its offset from that base (-1 = outside the window), so the model operators apply
   unchanged; at the "top" window the model's all-ones address IS 255.255.255.255 / ff..ff, and the real
   wrap-around happens right after it. *)
EXTENDS TraceIO, Integers
CONSTANT W
R == INSTANCE AddrRange
B == INSTANCE AddrBytes WITH DigitBits <- 8
T == INSTANCE AddrText
VARIABLE silent           \* the oracle gave no verdict on this execution ("unspec" string)
vars == <<ex, l, silent>>
Init == \E s \in Starts : TraceInit(s) /\ silent = FALSE

(* iteration is demanded where the property's precondition holds (R!IsIterable) and also wherever the
   implementation itself declares the range iterable: "If is_iterable returns false for a range, then iterating
   it ... is undefined" (address_range.h) -- conversely a range that reports true is inside the contract *)
RangeChecks(src, e) ==
    LET r == R!RangeOf(src) IN
    /\ ~e.threw
    /\ Len(e.contains) = R!Top + 1
    /\ \A x \in R!Addr : e.contains[x + 1] <=> R!Contains(r, x)      \* "starts at address AND mask and ends at address OR NOT
                                                                     \*  mask, contains exactly the addresses between its ends"
    /\ \A i \in 1..Len(e.outside) : ~e.outside[i]                    \*  ... and nothing outside the window either
    /\ R!IsIterable(r) => e.iterable                                 \* a range with hosts must be offered for iteration
    /\ (R!IsIterable(r) \/ e.iterable) =>
          /\ e.terminated                                            \* "and terminates, including ranges that end at the all-ones address"
          /\ e.visited \in R!IterSeqsOf(src)                         \* "visits each address (each host address for prefix-derived
                                                                     \*  ranges) exactly once in increasing order"
RangeEv == /\ IsEvent("range") /\ Cfg.W = W
           /\ RangeChecks([k |-> Ev.k, a |-> Ev.a, b |-> Ev.b], Ev)
           /\ silent' = FALSE
(* the same loop written with the forward iterator's post-increment *)
PostInc == /\ IsEvent("postinc") /\ Cfg.W = W
           /\ RangeChecks([k |-> Ev.k, a |-> Ev.a, b |-> Ev.b], Ev)
           /\ silent' = FALSE

(* real-width prefix ranges: all prefix lengths 0..32 / 0..128 / 0..48 *)
Wide == /\ IsEvent("wide")
        /\ LET n == Len(Ev.a)
               m == B!MaskB(n, Ev.p)
               hosts == 2^(IF 8 * n - Ev.p > 20 THEN 20 ELSE 8 * n - Ev.p) - 2 IN
           /\ ~Ev.threw
           /\ \A i \in 1..Len(Ev.probes) : Ev.contains[i] <=> B!ContainsB(Ev.a, m, Ev.probes[i])   \* ends and membership
           /\ (Ev.p <= 8 * n - 2) => Ev.iterable
           /\ Ev.iterated =>
                 /\ Ev.base = B!FirstB(Ev.a, m)                      \* offsets were taken from the range's first address
                 /\ Ev.terminated
                 /\ Ev.visited = [i \in 1..hosts |-> i]              \* first+1 .. last-1, increasing, once
        /\ silent' = FALSE

(* real-width ranges from an address and an arbitrary mask: "the derived range starts at address AND mask and ends at address
   OR NOT mask, contains exactly the addresses between its ends" *)
WideMask == /\ IsEvent("widemask")
            /\ ~Ev.threw
            /\ \A i \in 1..Len(Ev.probes) : Ev.contains[i] <=> B!ContainsB(Ev.a, Ev.m, Ev.probes[i])
            /\ silent' = FALSE

(* real-width explicit ranges [first, last] of at most 2^16 elements (also the WHOLE space of the one- and two-octet hardware
   addresses, which begins at all-zeros and ends at all-ones): "contains exactly the addresses between its ends, and iterating it
   visits each address ... exactly once in increasing order and terminates, including ranges that end at the all-ones address" *)
WidePair == /\ IsEvent("widepair")
            /\ Ev.count \in 1..65536
            /\ ~B!Wraps(Ev.first, Ev.count - 1) /\ B!AddK(Ev.first, Ev.count - 1) = Ev.last      \* the scenario is what it says
            /\ ~Ev.threw
            /\ \A i \in 1..Len(Ev.probes) : Ev.contains[i] <=> (B!LexLE(Ev.first, Ev.probes[i]) /\ B!LexLE(Ev.probes[i], Ev.last))
            /\ Ev.iterable
            /\ Ev.terminated
            /\ Ev.visited = [i \in 1..Ev.count |-> i - 1]            \* offsets from first: first .. last, increasing, once
            /\ silent' = FALSE

(* "equality and ordering agree with the numeric order of the address bytes, hashing is consistent with equality" *)
Cmp == /\ IsEvent("cmp")
       /\ Ev.ra = Ev.a /\ Ev.rb = Ev.b                               \* the objects hold the bytes they were built from
       /\ Ev.eq <=> (Ev.a = Ev.b)
       /\ Ev.ne <=> (Ev.a # Ev.b)
       /\ Ev.lt <=> B!LexLess(Ev.a, Ev.b)
       /\ Ev.gt <=> B!LexLess(Ev.b, Ev.a)
       /\ Ev.le <=> B!LexLE(Ev.a, Ev.b)
       /\ Ev.ge <=> B!LexLE(Ev.b, Ev.a)
       /\ (Ev.a = Ev.b) => Ev.heq                                    \* equal addresses hash equally
       /\ silent' = FALSE

(* "parsing its textual form returns the same address" *)
RoundTrip == /\ IsEvent("rt")
             /\ Ev.ok /\ Ev.back = Ev.a
             /\ T!Class(Ev.t, Ev.txt) # "reject"                     \* the textual form is itself a valid address string ...
             /\ T!Class(Ev.t, Ev.txt) = "accept" => T!Value(Ev.t, Ev.txt) = Ev.a      \* ... denoting this address
             /\ silent' = FALSE

(* "strings that are not valid addresses are rejected with an error"; valid ones parse to the address they denote *)
Parse == /\ IsEvent("parse")
         /\ LET c == T!Class(Ev.t, Ev.s) IN
            /\ c = "accept" => (Ev.ok /\ Ev.val = T!Value(Ev.t, Ev.s))
            /\ c = "reject" => ~Ev.ok
            /\ Ev.ok => Ev.back = Ev.val                             \* whatever was accepted: its textual form parses back to it
            /\ silent' = (c = "unspec")
Next == RangeEv \/ PostInc \/ Wide \/ WidePair \/ WideMask \/ Cmp \/ RoundTrip \/ Parse
Spec == Init /\ [][Next]_vars
MarkSilent == NoteSkipped(silent)
=============================================================================
