----------------------------- MODULE AddrTextGen -----------------------------
(* Scenario generator for the text half of C16: near-valid address strings.

   A string is built from tokens (each token a short character sequence).  Generation starts from a skeleton --
   a valid or slightly invalid address of the family selected by Mode -- and applies up to Budget mutations:
   replace a token by one from the alphabet, insert an alphabet token anywhere, delete a token.  BFS enumerates
   every string within the budget; -simulate samples deeper mutation chains.  Every state is exported:
       {"mode", "toks": [[chars]...], "cls": {"v4","v6","hw"}}      cls = AddrText!Class of the string, for the
   evidence counters only -- the verdict is recomputed by AddrTrace from the characters the driver logged.
   TypeOK (checked as an invariant on every generated string): the three classifiers are total, and every
   accepted string denotes a well-formed address of its family. *)
EXTENDS Naturals, Integers, Sequences, FiniteSets, TLC, Json
CONSTANTS Mode, Budget
T == INSTANCE AddrText

c0 == <<"0">>  c1 == <<"1">>  c2 == <<"2">>  c3 == <<"3">>  c4 == <<"4">>  c5 == <<"5">>  c6 == <<"6">>  c7 == <<"7">>
c8 == <<"8">>  c9 == <<"9">>
DOT == <<".">>  COL == <<":">>  DC == <<":", ":">>
n255 == <<"2", "5", "5">>   n256 == <<"2", "5", "6">>   n192 == <<"1", "9", "2">>   n168 == <<"1", "6", "8">>
z00 == <<"0", "0">>         z01 == <<"0", "1">>         ffff == <<"f", "f", "f", "f">>   FFFF == <<"F", "F", "F", "F">>
x10000 == <<"1", "0", "0", "0", "0">>   x0000 == <<"0", "0", "0", "0">>   x00000 == <<"0", "0", "0", "0", "0">>
a == <<"a">>  AA == <<"A">>  g == <<"g">>  z == <<"z">>  x1a == <<"1", "a">>  xff == <<"f", "f">>  xC0 == <<"C", "0">>
x2001 == <<"2", "0", "0", "1">>  xdb8 == <<"d", "b", "8">>  fe80 == <<"f", "e", "8", "0">>

Alphabet == {c0, c1, c9, n255, n256, z00, z01, a, AA, g, z, ffff, FFFF, x10000, x0000, x00000, xff,
             DOT, COL, DC, <<" ">>, <<"-">>, <<"%">>, <<"x">>, <<"/">>}

Join(fs, sep) == LET F[i \in 0..Len(fs)] == IF i = 0 THEN <<>> ELSE IF i = 1 THEN <<fs[1]>> ELSE F[i - 1] \o <<sep, fs[i]>>
                 IN F[Len(fs)]
V4Skel == {Join(f, DOT) : f \in {<<c0, c0, c0, c0>>, <<n255, n255, n255, n255>>, <<c1, c9, n255, c0>>,
                                  <<n192, n168, c0, c1>>, <<c9, n255, c0>>, <<c1, c0, n255, c9, c0>>}}
HWSkel == {Join(f, COL) : f \in {<<z00, z00, z00, z00, z00, z00>>, <<xff, xff, xff, xff, xff, xff>>,
                                  <<z00, x1a, xC0, z01, <<"9", "e">>, xff>>, <<z01, x1a, xC0, xff, z00>>,
                                  <<z00, x1a, xC0, z01, <<"9", "e">>, xff, <<"6", "6">>>>}}
V6Skel == {Join(<<c1, c2, c3, c4, c5, c6, c7, c8>>, COL),
           Join(<<ffff, ffff, ffff, ffff, ffff, ffff, ffff, ffff>>, COL),
           Join(<<x2001, xdb8, c0, c0, c0, c0, c0, c1>>, COL),
           <<DC>>, <<DC, c1>>, <<c1, DC>>, <<fe80, DC, c1>>, <<x2001, xdb8, DC, a, COL, c0>>,
           Join(<<c1, c2, c3, c4, c5, c6, c7>>, COL) \o <<DC>>,
           <<DC>> \o Join(<<c1, c2, c3, c4, c5, c6, c7>>, COL),
           <<DC, ffff, COL>> \o Join(<<c1, c2, c3, c4>>, DOT),
           <<DC>> \o Join(<<n255, c0, c9, c1>>, DOT),
           Join(<<c1, c2, c3, c4, c5, c6>>, COL) \o <<COL>> \o Join(<<c1, c2, c3, c4>>, DOT),
           Join(<<c1, c2, c3, c4, c5, c6, c7>>, COL),                               \* seven groups
           Join(<<c1, c2, c3, c4, c5, c6, c7, c8, c9>>, COL),                       \* nine groups
           <<c1, DC, c2, DC, c3>>,                                                  \* two "::"
           Join(<<c1, c2, c3, c4, c5, c6, c7>>, COL) \o <<DC, c8>>}                 \* eight groups and "::"
Skel == CASE Mode = "v4" -> V4Skel [] Mode = "v6" -> V6Skel [] Mode = "hw" -> HWSkel

VARIABLES toks, left
vars == <<toks, left>>
Init == toks \in Skel /\ left = Budget
Replace(i, t) == [toks EXCEPT ![i] = t]
Insert(i, t)  == SubSeq(toks, 1, i - 1) \o <<t>> \o SubSeq(toks, i, Len(toks))
Delete(i)     == SubSeq(toks, 1, i - 1) \o SubSeq(toks, i + 1, Len(toks))
Next == /\ left > 0 /\ left' = left - 1
        /\ \/ \E i \in 1..Len(toks), t \in Alphabet : toks' = Replace(i, t)
           \/ \E i \in 1..(Len(toks) + 1), t \in Alphabet : toks' = Insert(i, t)
           \/ \E i \in 1..Len(toks) : toks' = Delete(i)
Spec == Init /\ [][Next]_vars

Str == T!Flatten(toks)
Types == {"v4", "v6", "hw"}
Classes == [t \in Types |-> T!Class(t, Str)]
WellFormed(t, v) == /\ Len(v) = (CASE t = "v4" -> 4 [] t = "v6" -> 16 [] t = "hw" -> 6)
                    /\ \A i \in 1..Len(v) : v[i] \in 0..255
TypeOK == \A t \in Types : /\ Classes[t] \in {"accept", "reject", "unspec"}
                           /\ Classes[t] = "accept" => WellFormed(t, T!Value(t, Str))
Emit == PrintT("SCN " \o ToJson([mode |-> Mode, toks |-> toks, cls |-> Classes]))
=============================================================================
