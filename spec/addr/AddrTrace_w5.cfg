SPECIFICATION Spec
CONSTANT W = 5
CONSTRAINT Mark
CONSTRAINT MarkSilent
POSTCONDITION AllAccepted
CHECK_DEADLOCK FALSE
