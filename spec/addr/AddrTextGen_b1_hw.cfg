SPECIFICATION Spec
CONSTANT Mode = "hw"
CONSTANT Budget = 1
INVARIANT TypeOK
CONSTRAINT Emit
CHECK_DEADLOCK FALSE
