#!/usr/bin/env python3
"""Second pass of the mutation campaign: every mutant that survived its first checks is shown to further checks -
the one that owns the function it sits in (matches_response -> C14, field setters -> C15, option code -> C04) first,
then the rest of the file's list.   selftest/mutants_pass2.py --in DIR/results.jsonl --out DIR/pass2.jsonl --worker K --of W"""
import argparse, json, os, re, subprocess, sys, time
sys.path.insert(0, os.path.dirname(os.path.abspath(__file__)))
import mutants

ap = argparse.ArgumentParser()
ap.add_argument("--in", dest="inp", required=True)
ap.add_argument("--out", required=True)
ap.add_argument("--worker", type=int, default=0)
ap.add_argument("--of", type=int, default=1)
ap.add_argument("--max-checks", type=int, default=2)
a = ap.parse_args()
rows = [json.loads(l) for l in open(a.inp)]
surv = [r for r in rows if r.get("outcome2", r["outcome"]) == "SURVIVED"]      # (a later pass reads the output of the one before)
done = set()
if os.path.exists(a.out):
    done = {json.loads(l)["id"] for l in open(a.out)}
out = open(a.out, "a")
VB = "/var/tmp/mutp2-%d-vbuild" % a.worker
os.makedirs(VB, exist_ok=True)
env = dict(os.environ, VERIF_BUILD_DIR=VB)
for i, r in enumerate(surv):
    if i % a.of != a.worker or r["id"] in done:
        continue
    src = open(os.path.join("/repo", r["file"]), errors="replace").read().split("\n")
    fn = ""
    for n in range(min(r["line"], len(src)) - 1, -1, -1):
        m = re.match(r"^\S.*?(\w+)\s*\([^;]*$", src[n])
        if m and not src[n].startswith(("if", "for", "while", "switch", "#", "//", "}")):
            fn = m.group(1)
            break
    ran = [c[0] for c in r.get("checks", [])] + [c[0] for c in r.get("checks2", [])]
    prefer = []
    if fn == "matches_response":
        prefer = ["C14"]
    elif fn in ("send", "recv_response"):
        prefer = []
    cand = prefer + [p for p in mutants.FILE_PROPS.get(r["file"], []) if p not in prefer]
    for generic in ("C15", "C04", "C03", "C02", "C01"):
        if generic not in cand:
            cand.append(generic)
    cand = [p for p in cand if p not in ran][: a.max_checks]
    patch = os.path.join(os.path.dirname(a.inp), "patches", r["id"] + ".diff")
    rec = dict(r, function=fn, checks2=list(r.get("checks2", [])), outcome2="SURVIVED")
    if fn in ("send", "recv_response"):
        rec["outcome2"] = "outside (sending / receiving on a live interface)"
        cand = []
    for P in cand:
        t1 = time.time()
        try:
            p = subprocess.run("/verif/selftest/seed_run.sh %s %s quick" % (P, patch), shell=True, cwd="/verif", stdout=subprocess.PIPE, stderr=subprocess.STDOUT, timeout=3000, env=env)
            rc, o = p.returncode, p.stdout.decode(errors="replace")
        except subprocess.TimeoutExpired:
            rc, o = 124, "timeout"
        rec["checks2"].append([P, rc, round(time.time() - t1)])
        if rc == 1:
            rec["outcome2"] = "detected:" + P
            v = [l for l in o.splitlines() if l.strip().startswith(("rejected", "crash"))]
            rec["how"] = " | ".join(v[:2])[:300]
            break
        if rc not in (0, 1):
            rec["outcome2"] = "toolfail:" + P
            rec["how"] = o[-400:]
            break
    out.write(json.dumps(rec) + "\n"); out.flush()
    print(rec["outcome2"], r["file"], r["line"], fn, "|", r["old"][:60], "=>", r["new"][:60], flush=True)
