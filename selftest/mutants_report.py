#!/usr/bin/env python3
"""Summary of a mutation campaign (selftest/mutants.py + mutants_pass2.py):  selftest/mutants_report.py DIR > report.md
Reads DIR/results.jsonl and the last DIR/pass*.jsonl generation that mentions a mutant; survivors are printed with a triage note."""
import collections, glob, json, os, sys

D = sys.argv[1]
rows = {}
for l in open(os.path.join(D, "results.jsonl")):
    r = json.loads(l)
    rows[r["id"]] = r
for gen in ("pass2", "pass3", "pass4"):
    for f in sorted(glob.glob(os.path.join(D, gen + "-*.jsonl"))):
        for l in open(f):
            r = json.loads(l)
            rows[r["id"]] = r

# triage of survivors, by (file, line): why no registered check objects
TRIAGE = {
    ("src/bootp.cpp", 43): "default value (size of the vendor area of a default BootP): no property speaks about defaults",
    ("src/arp.cpp", 58): "default value of a default-constructed ARP",
    ("src/dot1q.cpp", 117): "value written and overwritten in the same function (dead store)",
    ("src/dns.cpp", 433): "equivalent (a buffer one octet larger)",
    ("src/dot11/dot11_mgmt.cpp", 250): "802.11 country element no longer padded to even length: getters and the round trip through libtins agree; C05's dissector does not read 802.11 management elements (gap, outside the listed derived fields)",
    ("src/dot11/dot11_mgmt.cpp", 89): "big-endian branch: not compiled on this host",
    ("src/dot11/dot11_data.cpp", 111): "big-endian branch: not compiled on this host",
    ("src/dot11/dot11_data.cpp", 109): "big-endian branch / masked by the following shift",
    ("src/snap.cpp", 70): "big-endian branch: not compiled on this host",
    ("src/snap.cpp", 78): "big-endian branch: not compiled on this host",
    ("src/ipv6_address.cpp", 117): "Windows branch: not compiled",
    ("src/ipv6_address.cpp", 122): "Windows branch: not compiled",
    ("src/packet_writer.cpp", 48): "destructor / resource handling of the writer (no property observes a leaked pcap handle)",
    ("src/packet_writer.cpp", 90): "destructor / resource handling of the writer",
    ("src/packet_writer.cpp", 74): "equivalent (every field is assigned afterwards)",
    ("src/packet_writer.cpp", 76): "the record's wire length (len) is 0 in the written file while caplen and the bytes are right: C17 reads the file back through libtins, which only looks at caplen (gap: C17 does not compare len)",
    ("src/offline_packet_filter.cpp", 67): "equivalent (optimisation level of pcap_compile)",
    ("src/sniffer.cpp", 461): "live-capture configuration (rfmon), not reachable from capture files",
    ("src/sniffer.cpp", 479): "live-capture configuration (immediate mode)",
    ("src/tcp_ip/stream_identifier.cpp", 129): "another marker octet for IPv4-mapped keys: injective as before",
    ("src/tcp_ip/stream_identifier.cpp", 130): "equivalent (a looser bound of a stream that is never exceeded)",
    ("src/tcp_ip/stream.cpp", 278): "recovery mode: outside the listed properties",
    ("src/tcp_ip/stream.cpp", 348): "recovery mode: outside the listed properties",
    ("src/tcp_ip/stream.cpp", 83): "process_packet(PDU&) without a timestamp: outside (C07 drives the follower with capture times)",
    ("src/tcp_ip/ack_tracker.cpp", 103): "default constructor of a tracker that is replaced before use",
    ("src/tcp_ip/ack_tracker.cpp", 51): "dead branch (AckedRange only produces closed intervals)",
    ("src/tcp_ip/data_tracker.cpp", 119): "equivalent (a slice of length 0)",
    ("src/tcp_ip/stream_follower.cpp", 63): "default of follow_partial_streams, set explicitly by every scenario",
    ("src/tcp_ip/stream_follower.cpp", 141): "sweeps more often: allowed (FollowerAbs leaves the sweep schedule inside [keep-alive, 2 keep-alive) free)",
    ("src/tcp_ip/stream_follower.cpp", 196): "sweeps more often: allowed",
    ("src/tcp_ip/flow.cpp", 77): "default MSS value (-1 / 0): no property speaks about it",
    ("src/tcp_stream.cpp", 233): "killed after the legacy runs got a retransmitted SYN / stray ACK in front of the SYN|ACK (the campaign ran on the earlier version)",
    ("src/udp.cpp", 89): "dead code (a file-local copy of sum_range that nothing calls)",
    ("src/udp.cpp", 90): "dead code",
    ("src/udp.cpp", 91): "dead code",
    ("src/utils/radiotap_parser.cpp", 200): "equivalent for well-formed headers (iteration ends either way)",
    ("src/utils/radiotap_parser.cpp", 119): "bit-field width of a flags structure that is only used as a whole",
    ("src/rtp.cpp", 130): "guard of remove_extension_data for states the API cannot reach (extension bit and length disagree)",
    ("src/handshake_capturer.cpp", 86): "classification of EAPOL frames that are no message of a conforming four-way handshake (C09 quantifies over conforming histories)",
    ("src/ipsec.cpp", 67): "raw-PDU fallback flag for an unknown next header below AH",
    ("src/icmp_extension.cpp", 131): "reserved bit next to the extension structure's version: not a field of C15's tables (ICMPExtensionsStructure is not a layer class)",
    ("src/llc.cpp", 124): "equivalent unless the format is switched twice on one object (the field keeps the default 2)",
    ("src/loopback.cpp", 98): "killed after catalogue entry 15 stopped setting the family by hand",
    ("src/eapol.cpp", 67): "boundary: an EAPOL frame of exactly header size",
    ("src/eapol.cpp", 122): "RC4 EAPOL parser: killed by C03 only if an RC4 key frame is among the inputs (gap: none from the independent encoder)",
    ("src/pppoe.cpp", 125): "killed after the container driver started alternating between both add_tag overloads",
    ("src/rawpdu.cpp", 56): "killed after the wire builder started using the payload setters",
    ("src/detail/address_helpers.cpp", 54): "return value of decrement() that no caller reads",
    ("src/pdu.cpp", 193): "instrumentation (the guarded region hook), not library code",
    ("src/pdu.cpp", 201): "instrumentation (the guarded region hook), not library code",
    ("src/radiotap.cpp", 351): "send path",
    ("src/ethernetII.cpp", 128): "send path (sockaddr for a live interface)",
    ("src/ethernetII.cpp", 205): "send path",
}

def final(r):
    return r.get("outcome2", r["outcome"])

c = collections.Counter()
for r in rows.values():
    o = final(r)
    c["detected" if o.startswith("detected") else "outside" if o.startswith("outside") else "toolfail" if o.startswith("toolfail") else o] += 1
total = len(rows)
passed = total - c["stillborn"] - c["tests"]
print("mutants %d; do not compile %d; killed by the repository's tests %d; pass the tests %d" % (total, c["stillborn"], c["tests"], passed))
print("of those: detected by a registered check %d; on the send / live-capture path %d; tool failure %d; not detected %d" % (c["detected"], c["outside"], c["toolfail"], c["SURVIVED"]))
by = collections.Counter(final(r) for r in rows.values() if final(r).startswith("detected"))
print("detected by: " + ", ".join("%s %d" % (k.split(":")[1], v) for k, v in sorted(by.items())))
print()
print("| file:line | function | change | checks shown | why no check objects |")
print("|---|---|---|---|---|")
fn_matches = 0
for r in sorted(rows.values(), key=lambda r: (r["file"], r["line"])):
    if final(r) != "SURVIVED":
        continue
    note = TRIAGE.get((r["file"], r["line"]), "")
    if not note and r.get("function") == "matches_response":
        note = "response matching of a class C14's mirror clause does not list (only its memory-safety clause covers it), or the final `return false` of a matcher that the listed stacks never reach"
    checks = [x[0] for x in r.get("checks", [])] + [x[0] for x in r.get("checks2", [])]
    print("| %s:%d | %s | `%s` → `%s` | %s | %s |" % (r["file"], r["line"], r.get("function", ""), r["old"][:60].replace("|", "\\|"), r["new"][:60].replace("|", "\\|"), " ".join(checks), note or "**not triaged**"))
