#!/usr/bin/env python3
"""Mutation campaign: how many small syntactic changes to libtins that still compile and still pass the repository's
own test suite do the registered checks detect?   (DESIGN.md section 9, "Mutation campaign")

  selftest/mutants.py --worker K --of W --per-file N --out DIR [--files f1,f2,...]

Every worker owns a scratch copy of /repo with a configured build tree (outside /repo and /verif, removed at the end).
For each sampled mutant of a source file:
   1. the file is rewritten in the scratch copy, library and tests are rebuilt   (does not compile  -> "stillborn")
   2. the whole test suite runs                                                   (a test fails     -> "tests")
   3. the quick tier of the checks registered for that file runs against a copy of the tree with the mutant
      (selftest/seed_run.sh), in the order given, until one reports a violation    (rc 1            -> "detected:<P>")
      no check objects                                                            (               -> "SURVIVED")
      a check ends with a tool failure                                            (rc 2            -> "toolfail:<P>")
Results are appended to DIR/results.jsonl, the diff of every mutant that passed the tests is kept in DIR/patches/.
Nothing here is a registered check; it measures the registered checks."""
import argparse, hashlib, json, os, random, re, shutil, subprocess, sys, time

REPO = "/repo"
# file -> checks that are expected to care, cheapest / most specific first
FILE_PROPS = {
    "src/tcp_ip/data_tracker.cpp": ["C06"],
    "src/tcp_ip/flow.cpp": ["C06", "C07"],
    "src/tcp_ip/stream.cpp": ["C07"],
    "src/tcp_ip/stream_follower.cpp": ["C07"],
    "src/tcp_ip/stream_identifier.cpp": ["C07"],
    "src/tcp_ip/ack_tracker.cpp": ["C19"],
    "src/tcp_stream.cpp": ["C06", "C12"],
    "src/ip_reassembler.cpp": ["C08", "C12"],
    "src/dns.cpp": ["C10", "C01"],
    "src/utils/radiotap_writer.cpp": ["C11"],
    "src/utils/radiotap_parser.cpp": ["C11", "C01"],
    "src/radiotap.cpp": ["C11", "C01"],
    "src/crypto.cpp": ["C09"],
    "src/handshake_capturer.cpp": ["C09"],
    "src/pdu.cpp": ["C12", "C02"],
    "src/detail/address_helpers.cpp": ["C16"],
    "src/ip_address.cpp": ["C16"],
    "src/ipv6_address.cpp": ["C16"],
    "include/tins/address_range.h": ["C16"],
    "src/sniffer.cpp": ["C17"],
    "src/packet_writer.cpp": ["C17"],
    "src/offline_packet_filter.cpp": ["C17"],
    "src/ip.cpp": ["C05", "C03", "C04", "C14", "C01"],
    "src/ipv6.cpp": ["C05", "C03", "C04", "C14", "C01"],
    "src/tcp.cpp": ["C05", "C04", "C03", "C14", "C01"],
    "src/udp.cpp": ["C05", "C03", "C14"],
    "src/icmp.cpp": ["C05", "C03", "C14", "C15"],
    "src/icmpv6.cpp": ["C05", "C04", "C03", "C14", "C15"],
    "src/icmp_extension.cpp": ["C05", "C03", "C01"],
    "src/ethernetII.cpp": ["C05", "C03", "C14"],
    "src/dot1q.cpp": ["C05", "C03", "C14"],
    "src/dot3.cpp": ["C05", "C03"],
    "src/llc.cpp": ["C05", "C15", "C03"],
    "src/snap.cpp": ["C05", "C03"],
    "src/sll.cpp": ["C05", "C03"],
    "src/loopback.cpp": ["C05", "C03"],
    "src/mpls.cpp": ["C05", "C03"],
    "src/pppoe.cpp": ["C05", "C04", "C03"],
    "src/eapol.cpp": ["C05", "C15", "C03"],
    "src/ipsec.cpp": ["C05", "C03"],
    "src/arp.cpp": ["C15", "C14", "C03"],
    "src/dhcp.cpp": ["C04", "C03", "C01"],
    "src/dhcpv6.cpp": ["C04", "C03", "C01"],
    "src/bootp.cpp": ["C03", "C15", "C14"],
    "src/rtp.cpp": ["C03", "C04", "C15"],
    "src/vxlan.cpp": ["C03", "C15"],
    "src/stp.cpp": ["C15", "C03"],
    "src/rawpdu.cpp": ["C02", "C13"],
    "src/dot11/dot11_base.cpp": ["C04", "C03", "C09", "C01"],
    "src/dot11/dot11_mgmt.cpp": ["C04", "C03", "C01"],
    "src/dot11/dot11_data.cpp": ["C09", "C03", "C15"],
    "src/dot11/dot11_control.cpp": ["C15", "C03", "C01"],
    "src/utils/checksum_utils.cpp": ["C05", "C09"],
    "src/memory_helpers.cpp": ["C01", "C02", "C03"],
    "src/internals.cpp": ["C03", "C05", "C08"],
    "src/packet_sender.cpp": [],
}


def sh(cmd, cwd=None, timeout=3600, env=None):
    try:
        p = subprocess.run(cmd, shell=True, cwd=cwd, stdout=subprocess.PIPE, stderr=subprocess.STDOUT, timeout=timeout, env=env)
        return p.returncode, p.stdout.decode(errors="replace")
    except subprocess.TimeoutExpired:
        return 124, "timeout"


def strip_comment(line):
    i = line.find("//")
    return line if i < 0 else line[:i]


OPS = [
    ("rel", re.compile(r"<="), "<"), ("rel", re.compile(r">="), ">"), ("rel", re.compile(r" < "), " <= "), ("rel", re.compile(r" > "), " >= "),
    ("eq", re.compile(r"=="), "!="), ("eq", re.compile(r"!="), "=="),
    ("logic", re.compile(r"&&"), "||"), ("logic", re.compile(r"\|\|"), "&&"),
    ("arith", re.compile(r" \+ "), " - "), ("arith", re.compile(r" - "), " + "),
    ("off1", re.compile(r" \+ 1\b"), ""), ("off1", re.compile(r" - 1\b"), ""), ("off1", re.compile(r"\+\+"), "--"),
    ("shift", re.compile(r" << "), " >> "), ("shift", re.compile(r" >> "), " << "),
    ("bit", re.compile(r" & "), " | "), ("bit", re.compile(r" \| "), " & "),
    ("bool", re.compile(r"\btrue\b"), "false"), ("bool", re.compile(r"\bfalse\b"), "true"),
]
CONST = re.compile(r"(?<![\w.])(\d{1,3})(?![\w.])")
HEX = re.compile(r"\b0x([0-9a-fA-F]{1,4})\b")
STMT = re.compile(r"^\s+[\w\.\->\[\]\(\)\*:]+\s*(=|\+=|-=|\|=|&=|<<=|>>=)[^=].*;\s*$")
CALL = re.compile(r"^\s+[A-Za-z_][\w\.\->:]*\(.*\);\s*$")
IFC = re.compile(r"^(\s*(?:else\s+)?if\s*)\((.*)\)(\s*\{?\s*)$")


def mutants_of(text):
    """yields (kind, line number, new line) over the code lines of a file"""
    out = []
    lines = text.split("\n")
    in_block = False
    for n, raw in enumerate(lines):
        line = raw.rstrip("\r")
        s = line.strip()
        if in_block:
            if "*/" in s:
                in_block = False
            continue
        if s.startswith("/*"):
            if "*/" not in s:
                in_block = True
            continue
        if not s or s.startswith("//") or s.startswith("#") or s.startswith("*") or "static_assert" in s or s.startswith("using ") or s.startswith("namespace"):
            continue
        code = strip_comment(line)
        for kind, rx, rep in OPS:
            for m in rx.finditer(code):
                if kind in ("rel", "shift") and ("template" in code or "<<" in code and kind == "rel" or "operator" in code or "->" in code[m.start() - 1:m.end() + 1]):
                    continue
                out.append((kind, n, code[:m.start()] + rep + code[m.end():]))
        for m in CONST.finditer(code):
            v = int(m.group(1))
            if "[" in code and "]" in code and code.find("[") < m.start() < code.find("]") and "=" not in code:
                continue
            out.append(("const", n, code[:m.start()] + str(v + 1) + code[m.end():]))
            if v > 0:
                out.append(("const", n, code[:m.start()] + str(v - 1) + code[m.end():]))
        for m in HEX.finditer(code):
            v = int(m.group(1), 16)
            for nv in {v >> 1, (v << 1 | 1) & 0xffff, v ^ 1}:
                if nv != v:
                    out.append(("hex", n, code[:m.start()] + hex(nv) + code[m.end():]))
        if STMT.match(code) or (CALL.match(code) and not s.startswith("return")):
            ind = code[:len(code) - len(code.lstrip())]
            out.append(("delstmt", n, ind + ";"))
        m = IFC.match(code)
        if m:
            out.append(("negif", n, "%s(!(%s))%s" % (m.group(1), m.group(2), m.group(3))))
    return out


def main():
    ap = argparse.ArgumentParser()
    ap.add_argument("--worker", type=int, default=0)
    ap.add_argument("--of", type=int, default=1)
    ap.add_argument("--per-file", type=int, default=12)
    ap.add_argument("--out", default="/var/tmp/mut")
    ap.add_argument("--files", default="")
    ap.add_argument("--seed", type=int, default=1)
    ap.add_argument("--max-checks", type=int, default=3)
    a = ap.parse_args()
    os.makedirs(os.path.join(a.out, "patches"), exist_ok=True)
    files = [f for f in (a.files.split(",") if a.files else sorted(FILE_PROPS)) if FILE_PROPS.get(f) and os.path.exists(os.path.join(REPO, f))]
    W = "/var/tmp/mutw%d" % a.worker
    shutil.rmtree(W, ignore_errors=True)
    os.makedirs(W)
    for d in ("src", "include", "tests", "cmake", "googletest", "CMakeLists.txt", "libtins.pc.in", "cmake_uninstall.cmake.in", "examples", "docs"):
        sp = os.path.join(REPO, d)
        if os.path.isdir(sp):
            shutil.copytree(sp, os.path.join(W, d))
        elif os.path.exists(sp):
            shutil.copy(sp, W)
    rc, o = sh("cmake -G Ninja -S . -B _build -DCMAKE_BUILD_TYPE=RelWithDebInfo -DCMAKE_CXX_FLAGS=-Wno-error -DLIBTINS_BUILD_TESTS=ON -DLIBTINS_BUILD_EXAMPLES=OFF -DLIBTINS_ENABLE_CXX11=ON "
               "&& cmake --build _build --target tins tests -j6", cwd=W)
    if rc:
        print(o[-3000:]); sys.exit(2)
    # a build cache of its own (the checks' content-addressed cache under /verif/build is garbage-collected by age: a campaign that
    # adds a library build per mutant must not push out what a check running on the real tree is using)
    VB = W + "-vbuild"
    shutil.rmtree(VB, ignore_errors=True)
    os.makedirs(VB)
    for od in ("obj-asan", "obj-tsan", "obj-plain"):
        if os.path.isdir("/verif/build/" + od):
            shutil.copytree("/verif/build/" + od, os.path.join(VB, od))
    env = dict(os.environ, VERIF_BUILD_DIR=VB)
    res = open(os.path.join(a.out, "results.jsonl"), "a")
    todo = []
    for f in files:
        text = open(os.path.join(REPO, f), newline="").read()
        ms = mutants_of(text)
        rng = random.Random("%d:%s" % (a.seed, f))
        rng.shuffle(ms)
        # spread over kinds: round-robin by kind
        by = {}
        for m in ms:
            by.setdefault(m[0], []).append(m)
        pick = []
        while len(pick) < a.per_file and any(by.values()):
            for k in sorted(by):
                if by[k] and len(pick) < a.per_file:
                    pick.append(by[k].pop())
        for m in pick:
            todo.append((f, m))
    todo = [t for i, t in enumerate(todo) if i % a.of == a.worker]
    print("worker %d: %d mutants over %d files" % (a.worker, len(todo), len(files)), flush=True)
    for f, (kind, n, newline) in todo:
        orig = open(os.path.join(REPO, f), newline="").read()
        lines = orig.split("\n")
        cr = lines[n].endswith("\r")
        old = lines[n]
        lines[n] = newline + ("\r" if cr else "")
        mid = hashlib.sha1(("%s:%d:%s" % (f, n, newline)).encode()).hexdigest()[:10]
        rec = {"id": mid, "file": f, "line": n + 1, "kind": kind, "old": old.strip(), "new": newline.strip(), "t0": time.time()}
        with open(os.path.join(W, f), "w", newline="") as fh:
            fh.write("\n".join(lines))
        rc, o = sh("cmake --build _build --target tins tests -j6", cwd=W, timeout=1800)
        if rc:
            rec["outcome"] = "stillborn"
        else:
            rc, o = sh("ctest --test-dir _build -j6 --timeout 120", cwd=W, timeout=1800)
            if rc:
                rec["outcome"] = "tests"
            else:
                os.makedirs(os.path.join(W, "a", os.path.dirname(f)), exist_ok=True)
                os.makedirs(os.path.join(W, "b", os.path.dirname(f)), exist_ok=True)
                shutil.copy(os.path.join(REPO, f), os.path.join(W, "a", f))
                shutil.copy(os.path.join(W, f), os.path.join(W, "b", f))
                patch = os.path.join(a.out, "patches", mid + ".diff")
                sh("diff -u a/%s b/%s > %s" % (f, f, patch), cwd=W)
                shutil.rmtree(os.path.join(W, "a")); shutil.rmtree(os.path.join(W, "b"))
                rec["outcome"] = "SURVIVED"
                rec["checks"] = []
                for P in FILE_PROPS[f][:a.max_checks]:
                    t1 = time.time()
                    rc, o = sh("/verif/selftest/seed_run.sh %s %s quick" % (P, patch), cwd="/verif", timeout=3000, env=env)
                    rec["checks"].append([P, rc, round(time.time() - t1)])
                    if rc == 1:
                        rec["outcome"] = "detected:" + P
                        v = [l for l in o.splitlines() if l.strip().startswith(("rejected", "crash")) or "VIOLATION" in l]
                        rec["how"] = " | ".join(v[:2])[:300]
                        break
                    if rc not in (0, 1):
                        rec["outcome"] = "toolfail:" + P
                        rec["how"] = o[-600:]
                        break
        # restore
        with open(os.path.join(W, f), "w", newline="") as fh:
            fh.write(orig)
        rec["wall"] = round(time.time() - rec.pop("t0"))
        res.write(json.dumps(rec) + "\n"); res.flush()
        print(rec["outcome"], f, rec["line"], rec["kind"], "|", rec["old"][:70], "=>", rec["new"][:70], flush=True)
    shutil.rmtree(W, ignore_errors=True)
    shutil.rmtree(VB, ignore_errors=True)


if __name__ == "__main__":
    main()
