#!/usr/bin/env python3
"""usage: selftest/seed_keep.py <PROP> <n> <detected: yes|no|partial> <tier> "<which check output caught it / note>"
Archives a confirmed seeded change under /verif/seeded/<PROP>-<n>/ (patch.diff, demo.cpp, meta.json)."""
import json, os, shutil, sys
P, n, det, tier, note = sys.argv[1:6]
src = "%s/%s/%s" % (os.environ.get("SEEDS_DIR", "/tmp/seeds"), P, n)
kept = str(int(n) + int(os.environ.get("SEED_OFFSET", "0")))      # second batch: SEEDS_DIR=/tmp/seeds2 SEED_OFFSET=3
dst = "/verif/seeded/%s-%s" % (P, kept)
os.makedirs(dst, exist_ok=True)
for f in ("patch.diff", "demo.cpp"):
    shutil.copy(os.path.join(src, f), dst)
meta = json.load(open(os.path.join(src, "meta.json")))
conf = open(os.path.join(src, "confirm.log")).read().strip().splitlines()[-1] if os.path.exists(os.path.join(src, "confirm.log")) else "not confirmed"
meta.update({"property": P, "origin": "independent sub-agent given only the property text and a scratch worktree",
             "confirmed": conf,
             "ran": ["selftest/seed_confirm.sh %s %s   (apply in scratch worktree, build lib+tests, ctest, demo fails; revert, demo passes)" % (P, n),
                     "selftest/seed_run.sh %s seeded/%s-%s/patch.diff %s   (check against a scratch copy of /repo with the patch)" % (P, P, kept, tier)],
             "detected": det, "detected_by": note})
json.dump(meta, open(os.path.join(dst, "meta.json"), "w"), indent=1)
print("kept", dst)
