#!/bin/sh
# usage: selftest/seed_confirm.sh <PROP> <n> [worktree]
# Confirms a seeded change independently (in a scratch worktree): applies, builds lib+tests, runs ctest, builds and
# runs the demonstration (must fail), reverts, rebuilds, runs the demonstration again (must pass).
P=$1; N=$2; WT=${3:-/tmp/wt-$P}; S=${SEEDS_DIR:-/tmp/seeds}/$P/$N
LOG=$S/confirm.log; : > $LOG
fail() { echo "CONFIRM-FAIL $P/$N: $1" | tee -a $LOG; git -C $WT checkout -- . ; exit 1; }
git -C $WT checkout -- . || exit 1
git -C $WT apply --check $S/patch.diff >>$LOG 2>&1 || fail "patch does not apply"
git -C $WT apply $S/patch.diff
cmake --build $WT/_build --target tins tests -j16 >>$LOG 2>&1 || fail "does not build"
ctest --test-dir $WT/_build -j8 >>$LOG 2>&1 || fail "existing tests fail with the change"
g++ -std=c++11 -I$WT/include $S/demo.cpp -L$WT/_build/lib -ltins -lpcap -lcrypto -lpthread -Wl,-rpath,$WT/_build/lib -o $S/demo.bin >>$LOG 2>&1 || fail "demo does not build"
timeout 120 $S/demo.bin >>$LOG 2>&1; RC1=$?
git -C $WT checkout -- .
cmake --build $WT/_build --target tins -j16 >>$LOG 2>&1 || fail "clean rebuild failed"
g++ -std=c++11 -I$WT/include $S/demo.cpp -L$WT/_build/lib -ltins -lpcap -lcrypto -lpthread -Wl,-rpath,$WT/_build/lib -o $S/demo.bin >>$LOG 2>&1
timeout 120 $S/demo.bin >>$LOG 2>&1; RC0=$?
rm -f $S/demo.bin
if [ $RC1 -ne 0 ] && [ $RC0 -eq 0 ]; then echo "CONFIRMED $P/$N (with change: demo rc=$RC1, tests pass; without: demo rc=0)" | tee -a $LOG; exit 0; fi
fail "demo rc with=$RC1 without=$RC0"
