#!/bin/sh
# usage: selftest/seed_run.sh <PROP> <patch.diff> [tier]  - run a check against a scratch copy of /repo with the patch applied
P=$1; PATCH=$2; TIER=${3:-quick}
D=$(mktemp -d /tmp/mutrepo.XXXXXX)
cp -r /repo/src /repo/include $D/
( cd $D && patch -p1 -s < $PATCH ) || { echo "patch failed"; rm -rf $D; exit 3; }
VERIF_REPO=$D VERIF_EVIDENCE_DIR=$D/evidence VERIF_OUT_DIR=$D/out /verif/checks/check $P --tier $TIER; RC=$?
cp $D/out/$P/viol-1.json /tmp/last-viol-$P.json 2>/dev/null; rm -rf $D
echo "seed_run rc=$RC"
exit $RC
